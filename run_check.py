#!/venv/bin/python
# -*- coding: utf-8 -*-
"""
CLI for the bounded exhaustive checks.

    run_check.py C05 --tier quick|thorough
    run_check.py --replay replays/C05-0001.json

The outer invocation only prepares a hermetic environment (private scratch
directory, private NUMBA_CACHE_DIR, pinned hash seed and terminal size) and
re-executes itself; the inner invocation runs the check against /repo's
current working tree. Exit codes: 0 held, 1 violation, 2 infrastructure error.
"""

import argparse
import os
import shutil
import subprocess
import sys
import tempfile

VERIF = os.path.dirname(os.path.abspath(__file__))
PYTHON = "/venv/bin/python"


def outer(argv):
    scratch = tempfile.mkdtemp(prefix="dataiter-mc-")
    env = dict(os.environ)
    env.update({
        "_MC_INNER": "1",
        "MC_SCRATCH": scratch,
        "PYTHONHASHSEED": "0",
        "PYTHONDONTWRITEBYTECODE": "1",
        # VERIF_REPO lets the seeded-change campaign (tools/run_seeded.py) aim a check at a scratch copy; default is /repo
        "PYTHONPATH": os.environ.get("VERIF_REPO", "/repo") + os.pathsep + VERIF,
        "NUMBA_CACHE_DIR": os.path.join(scratch, "numba"),
        "COLUMNS": "80",
        "LINES": "24",
        "TMPDIR": scratch,
        "OMP_NUM_THREADS": "1",
        "OPENBLAS_NUM_THREADS": "1",
        "MKL_NUM_THREADS": "1",
        "NUMBA_NUM_THREADS": "1",
        "ARROW_DEFAULT_MEMORY_POOL": "system",
        "TZ": "UTC",
        "LC_ALL": "C.UTF-8",
        "DATAITER_VERIF": "1",
        "PYTHONWARNINGS": "ignore",
    })
    # A replayed case / shard that was explored under another string-hash seed is replayed under that seed.
    if "--replay" in argv:
        try:
            import json
            with open(argv[argv.index("--replay") + 1]) as f:
                case = json.load(f).get("case") or {}
            spec = case.get("__shard__") if isinstance(case, dict) and "__shard__" in case else case
            seed = ((spec or {}).get("__env__") or {}).get("PYTHONHASHSEED") if isinstance(spec, dict) else None
            if seed is not None:
                env["PYTHONHASHSEED"] = str(seed)
        except (OSError, ValueError, IndexError):
            pass
    # Numba is only needed by C08 (which manages it per process history itself).
    env.setdefault("DATAITER_USE_NUMBA", "false")
    env["DATAITER_USE_NUMBA"] = "false"
    try:
        proc = subprocess.run([PYTHON, os.path.abspath(__file__)] + argv, env=env, cwd=VERIF)
        return proc.returncode
    finally:
        shutil.rmtree(scratch, ignore_errors=True)


def validate_evidence(check_id):
    """Full JSON-schema validation with the tooling interpreter when present."""
    path = os.path.join(os.environ.get("VERIF_OUT", VERIF), "evidence", f"{check_id}.json")
    schema = "/root/.vp/EVIDENCE.schema.json"
    vt = shutil.which("python3-vt")
    if not (vt and os.path.exists(schema)):
        return
    code = ("import json,sys,jsonschema;"
            "jsonschema.validate(json.load(open(sys.argv[1])), json.load(open(sys.argv[2])))")
    env = {k: v for k, v in os.environ.items() if not k.startswith("PYTHON")}
    p = subprocess.run([vt, "-W", "ignore", "-c", code, path, schema], capture_output=True, text=True, env=env)
    if p.returncode != 0:
        sys.stderr.write("evidence file does not validate:\n" + p.stderr[-2000:] + "\n")
        raise SystemExit(2)


def inner(argv):
    ap = argparse.ArgumentParser()
    ap.add_argument("check", nargs="?")
    ap.add_argument("--tier", default=os.environ.get("VERIF_TIER", "quick"), choices=["quick", "thorough"])
    ap.add_argument("--replay")
    args = ap.parse_args(argv)
    sys.path.insert(0, VERIF)
    from mc import harness
    try:
        if args.replay:
            return harness.run_replay(args.replay)
        if not args.check:
            ap.error("check id required")
        seed = int(os.environ.get("VERIF_SEED", "0") or 0)
        code = harness.run_check(args.check, args.tier, seed)
        validate_evidence(args.check)
        return code
    except harness.InfraError as e:
        sys.stderr.write(f"INFRASTRUCTURE ERROR: {e}\n")
        return 2


if __name__ == "__main__":
    if os.environ.get("_MC_INNER") == "1":
        sys.exit(inner(sys.argv[1:]))
    sys.exit(outer(sys.argv[1:]))
