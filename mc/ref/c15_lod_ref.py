# -*- coding: utf-8 -*-
"""
Reference model for C15: ListOfDicts transformations as plain operations on a
Python list of dicts. Boring on purpose: no dataiter, no itemgetter, no sorted.

The receiver is described by two parallel lists

    objs   the dict objects the ListOfDicts holds (identity matters)
    m      plain-dict copies of their contents with the SAME alias structure
           (m[i] is m[j] iff objs[i] is objs[j])

and an expectation is a list of alternatives, each a list of entries
`(obj_or_None, contents)`: `obj` is the object that must sit at that position
(the method hands the item on) or None (the method builds a new item, or is one
of the six editing methods; only the contents are compared). More than one alternative / `may_raise` are used only
where the property statement is silent (DESIGN 3.3).
"""

ABSENT = ("<absent>",)


class Expect:
    __slots__ = ("alts", "may_raise", "must_raise", "single")

    def __init__(self, alts, may_raise=False, must_raise=False, single=False):
        self.alts = alts
        self.may_raise = may_raise
        self.must_raise = must_raise
        self.single = single


def model_of(objs):
    memo = {}
    m = []
    for o in objs:
        k = id(o)
        if k not in memo:
            memo[k] = dict(o)
        m.append(memo[k])
    return m


# ---------------------------------------------------------------------------
# predicates and value functions (inputs of the operations, by name so that a
# case is JSON-able). They use .get so that ragged items never make them raise.

PREDS = {
    "true": lambda x: True,
    "false": lambda x: False,
    "a_eq_1": lambda x: x.get("a") == 1,
    "a_is_none": lambda x: x.get("a") is None,
    # predicates that return a truthy / falsy VALUE rather than a bool (an int, a string, None)
    "a_value": lambda x: x.get("a"),
    "b_value": lambda x: x.get("b"),
}


def _a_eq_1_reentrant(x):
    # a predicate that itself runs list-of-dicts operations (on an unrelated list) before answering
    import dataiter as di
    other = di.ListOfDicts([{"a": 2, "b": "q"}, {"a": 1, "b": "p"}, {"a": 1, "b": "r"}])
    other.filter(a=1).sort(b=-1).unique("a").select("a").modify(c=lambda y: 0).head(1)
    return x.get("a") == 1


PREDS["a_eq_1_reentrant"] = _a_eq_1_reentrant


def _nkeys_reentrant(x):
    import dataiter as di
    di.ListOfDicts([{"a": 2}, {"a": 1}]).sort(a=1).filter_out(a=2).rename(z="a")
    return len(x)


def _a_inc(x):
    v = x.get("a")
    return v + 1 if isinstance(v, int) and not isinstance(v, bool) else 1


# what the implementation is given (items there support attribute access)
IMPL_FUNCS = {
    "const7": lambda x: 7,
    "const0": lambda x: 0,      # falsy results are results
    "constF": lambda x: False,
    "none": lambda x: None,
    "get_a": lambda x: x.get("a"),
    "get_b": lambda x: x.get("b"),
    "a_inc": _a_inc,
    "attr_a": lambda x: x.a if "a" in x else 0,
    "nkeys": lambda x: len(x),
    "nkeys_reentrant": _nkeys_reentrant,
}
# what the model evaluates on its plain dicts
REF_FUNCS = dict(IMPL_FUNCS)
REF_FUNCS["attr_a"] = lambda x: x["a"] if "a" in x else 0


# ---------------------------------------------------------------------------
# applicability: unspecified corners are excluded from the space (DESIGN 3.5)

def _sortable(values):
    kinds = set()
    for v in values:
        if v is None:
            continue
        if isinstance(v, bool):
            return False
        if isinstance(v, int):
            kinds.add("i")
        elif isinstance(v, str):
            kinds.add("s")
        else:
            return False
    return len(kinds) <= 1


def applicable(op, m):
    o = op["op"]
    if o == "sort":
        # sort by a key some item lacks, or over values with no common order: excluded
        for key, _ in op["keys"]:
            if any(key not in c for c in m):
                return False
            if not _sortable([c[key] for c in m]):
                return False
        return True
    if o == "unique" and not op["keys"] and m:
        # no-argument unique on items with no key in common: excluded
        return any(all(k in c for c in m) for k in m[0])
    if o == "rename":
        # renaming onto a name that stays in the item: excluded
        ren = {frm: to for to, frm in op["pairs"]}
        if len(ren) != len(op["pairs"]):
            return False
        for c in m:
            new = [ren.get(k, k) for k in c]
            if len(set(new)) != len(new):
                return False
        return True
    if o in ("head", "tail"):
        return op["n"] is None or op["n"] >= 0
    if o in EDIT_OPS and not _edit_well_defined(op, m):
        return False
    return True


# ---------------------------------------------------------------------------
# the six editing operations, item by item

EDIT_OPS = ("select", "unselect", "rename", "modify", "modify_if", "fill")


def edit_context(op, m):
    """What an editing operation reads from the whole list (only fill_missing_keys() does)."""
    if op["op"] == "fill":
        kv = [(k, v) for k, v in op["kv"]]
        if not kv:
            allkeys = []
            for c in m:
                for k in c:
                    if k not in allkeys:
                        allkeys.append(k)
            kv = [(k, None) for k in allkeys]
        return kv
    return None


def edit_item(op, c, ctx):
    """Contents of an item with contents c after the editing operation: only the named keys change."""
    o = op["op"]
    if o == "select":
        return {k: v for k, v in c.items() if k in op["keys"]}
    if o == "unselect":
        return {k: v for k, v in c.items() if k not in op["keys"]}
    if o == "rename":
        ren = {frm: to for to, frm in op["pairs"]}
        return {ren.get(k, k): v for k, v in c.items()}
    if o == "modify" or o == "modify_if":
        new = dict(c)
        if o == "modify" or PREDS[op["pred"]](c):
            for key, fn in op["set"]:
                new[key] = REF_FUNCS[fn](new)
        return new
    if o == "fill":
        new = dict(c)
        for k, v in ctx:
            if k not in new:
                new[k] = v
        return new
    raise ValueError(o)


def _edit_well_defined(op, m):
    """
    When the same dict object sits at two positions, an in-place edit applies
    twice to it and a rebuilding edit once. The statement does not say which
    methods edit in place, so a (list, operation) pair is explored only if
    both readings agree: editing an aliased item twice equals editing it once.
    """
    seen = set()
    aliased = []
    for c in m:
        if id(c) in seen:
            aliased.append(c)
        seen.add(id(c))
    if not aliased:
        return True
    ctx = edit_context(op, m)
    for c in aliased:
        once = edit_item(op, c, ctx)
        if edit_item(op, once, ctx) != once:
            return False
    return True


# ---------------------------------------------------------------------------
# the operations

def _first_per_key(pairs, keyf):
    seen = []
    out = []
    for p in pairs:
        k = keyf(p[1])
        found = False
        for s in seen:
            if s == k:
                found = True
                break
        if not found:
            seen.append(k)
            out.append(p)
    return out


def _before(ci, cj, keys):
    """True when an item with contents ci must come strictly before cj."""
    for key, dir in keys:
        vi, vj = ci[key], cj[key]
        if vi is None and vj is None:
            continue
        if vi is None:
            return False  # None last, whatever the direction
        if vj is None:
            return True
        if vi == vj:
            continue
        return vi < vj if dir > 0 else vi > vj
    return False


def _stable_sort(pairs, keys):
    out = []
    for p in pairs:
        pos = len(out)
        while pos > 0 and _before(p[1], out[pos - 1][1], keys):
            pos -= 1
        out.insert(pos, p)
    return out


def reference(op, objs, m, args, peek):
    """Expectation for `op` on the receiver (objs, m)."""
    o = op["op"]
    pairs = list(zip(objs, m))
    n = len(pairs)

    if o in ("filter", "filter_out"):
        keep = (o == "filter")
        if "pred" in op and "kv" in op:
            # both a function and key=value pairs: the documentation says "either ... or"; whichever condition is used
            # (the function alone, or the function and the pairs), filter and filter_out split the items by THAT condition
            pred = PREDS[op["pred"]]
            kv = [(k, v) for k, v in op["kv"]]
            both = lambda c: bool(pred(c)) and all(c.get(k) == v for k, v in kv)
            return Expect([[p for p in pairs if bool(pred(p[1])) == keep], [p for p in pairs if both(p[1]) == keep]])
        if "pred" in op:
            pred = PREDS[op["pred"]]
            return Expect([[p for p in pairs if bool(pred(p[1])) == keep]])
        kv = [(k, v) for k, v in op["kv"]]
        lacking = any(k not in c for c in m for k, _ in kv)
        if not lacking:
            return Expect([[p for p in pairs if all(p[1][k] == v for k, v in kv) == keep]])
        # statement silent, plain Python raises: accept raising, the .get answer
        # (absent like None) and "an absent key equals nothing"
        get_style = [p for p in pairs if all(p[1].get(k) == v for k, v in kv) == keep]
        never = [p for p in pairs if all(k in p[1] and p[1][k] == v for k, v in kv) == keep]
        return Expect([get_style, never], may_raise=True)

    if o == "sort":
        return Expect([_stable_sort(pairs, [(k, d) for k, d in op["keys"]])])

    if o == "unique":
        keys = list(op["keys"])
        if n == 0:
            return Expect([[]])
        if keys:
            lacking = any(k not in c for c in m for k in keys)
            if not lacking:
                return Expect([_first_per_key(pairs, lambda c: [c[k] for k in keys])])
            return Expect([_first_per_key(pairs, lambda c: [c.get(k) for k in keys]),
                           _first_per_key(pairs, lambda c: [c.get(k, ABSENT) for k in keys])],
                          may_raise=True)
        common = [k for k in m[0] if all(k in c for c in m)]
        alts = [_first_per_key(pairs, lambda c: [c[k] for k in common])]
        if any(len(c) != len(common) for c in m):
            # ragged items: the statement does not say whether "key combination"
            # of the no-argument form means the common keys or the whole item
            alts.append(_first_per_key(pairs, lambda c: c))
        return Expect(alts)

    if o in EDIT_OPS:
        ctx = edit_context(op, m)
        return Expect([[(None, edit_item(op, c, ctx)) for c in m]])

    if o == "append":
        ref = list(pairs)
        ref.append(args["item_entry"])
        return Expect([ref])

    if o in ("extend", "add"):
        ref = list(pairs)
        if o == "extend":
            ref.extend(args["other_entries"])
        else:
            ref = ref + args["other_entries"]
        return Expect([ref])

    if o == "mul" or o == "rmul":
        return Expect([pairs * op["k"] if o == "mul" else op["k"] * pairs])

    if o == "reverse":
        ref = list(pairs)
        ref.reverse()
        return Expect([ref])

    if o == "insert":
        ref = list(pairs)
        ref.insert(op["index"], args["item_entry"])
        return Expect([ref])

    if o == "head":
        k = min(peek if op["n"] is None else op["n"], n)
        return Expect([[pairs[i] for i in range(k)]])

    if o == "tail":
        k = min(peek if op["n"] is None else op["n"], n)
        return Expect([[pairs[i] for i in range(n - k, n)]])

    if o == "slice":
        return Expect([pairs[slice(op["start"], op["stop"], op["step"])]])

    if o == "index":
        try:
            return Expect([[pairs[op["i"]]]], single=True)
        except IndexError:
            return Expect([], must_raise=True, single=True)

    raise ValueError(f"unknown operation {o!r}")
