# -*- coding: utf-8 -*-
"""
Reference state machine for C17: the derivation forest of a family of
ListOfDicts and the obsolescence / warn-once discipline (DESIGN section 5, C17).

Boring on purpose: plain Python, no dataiter import. The model never looks at
the implementation's private flags. It is driven in lock step with the real
objects by checks/c17_lod_obsolete.py, which tells it which event happened and
which item objects (as small integers, "item ids") the resulting list holds.

State
    members[i] = Member(parent, family, obsolete, warned, items)
        parent    index of the RECEIVER the member was obtained from, -1 for a root
        family    index of the deepcopy family (the root it descends from)
        obsolete  an editing method was called on it or on a descendant
        warned    it has printed its one warning
        items     tuple of item ids it holds, in order
    contents[j]   canonical contents of item j (as last observed)
    owner[j]      family that introduced item j
    group[f]      union-find over families: families between which no isolation
                  is claimed any more (an inner/left join copied values across)

Transition relation (the "seven lines")
    use(i)        if obsolete[i] and not warned[i]: expect exactly one warning, warned[i] = True
                  otherwise expect none
    derive(i)     = use(i); new member(parent=i, family=family[i], fresh flags)
    edit(i)       = use(i); new member(parent=i, ...); then obsolete[x] = True for x = i and every ancestor of i
    deepcopy(i)   = use(i); new member(parent=-1, new family, fresh flags, fresh items)

Every method call on a list is a use of that list (the statement says "on their
next use"), so derive / edit / deepcopy first behave like use(i). Flags are
sticky: a list warns once in its life.

Why "i and ALL its ancestors" is exactly what the statement demands although it
only names ancestors reached "through methods that hand on the same item
objects": every link of the forest is either a non-modifying method (which hands
on the same objects) or an editing method, and the receiver of an editing method
is obsolete by the first half of the sentence. By induction every ancestor that
is separated from i by an editing link was already obsolete, and marking an
obsolete list again changes nothing (flags are sticky). So the simple rule and
the careful reading produce the same flags on every history of this event set.

An argument of a method (a join's right-hand list) is NOT an ancestor, and
whether handing an obsolete list to another list's method counts as a "use" of
it is left open by the statement: expected_warnings() therefore returns a pair
(must, may) and the driver accepts must <= observed <= must + may.
"""

WARNING = "Warning: A successor has modified the shared dicts"

# methods the statement calls non-modifying / in-place editing
NON_MODIFYING = ("filter", "sort", "unique", "head", "tail", "slice", "copy", "reverse", "sample",
                 "semi_join", "anti_join")
IN_PLACE = ("modify", "modify_if", "rename", "select", "unselect", "fill_missing_keys",
            "inner_join", "left_join")
# editing joins copy VALUES (possibly nested mutable ones) from the right-hand items into the receiver's
VALUE_COPYING_JOINS = ("inner_join", "left_join")


class Member:

    __slots__ = ("parent", "family", "obsolete", "warned", "items")

    def __init__(self, parent, family, items):
        self.parent = parent
        self.family = family
        self.obsolete = False
        self.warned = False
        self.items = tuple(items)

    def key(self):
        return (self.parent, self.family, self.obsolete, self.warned, self.items)


class Model:

    def __init__(self, root_items, root_contents):
        self.members = [Member(-1, 0, root_items)]
        self.contents = list(root_contents)
        self.owner = [0] * len(self.contents)
        self.group = [0]

    # -- derivation forest ------------------------------------------------
    def ancestors(self, i):
        out = []
        p = self.members[i].parent
        while p >= 0:
            out.append(p)
            p = self.members[p].parent
        return out

    def shape(self):
        return tuple(m.parent for m in self.members)

    # -- isolation groups ---------------------------------------------------
    def find(self, f):
        while self.group[f] != f:
            f = self.group[f]
        return f

    def merge(self, f, g):
        f, g = self.find(f), self.find(g)
        if f != g:
            self.group[max(f, g)] = min(f, g)

    def foreign_items(self, i):
        """Items owned by families isolated from member i's family: no event on i may change them."""
        g = self.find(self.members[i].family)
        return [j for j, f in enumerate(self.owner) if self.find(f) != g]

    # -- warnings ---------------------------------------------------------
    def expected_warnings(self, i, right=None):
        """(must, may): warnings that calling a method on member i must print, and how many more
        are tolerated because member `right` is passed as an argument."""
        m = self.members[i]
        must = 1 if (m.obsolete and not m.warned) else 0
        may = 0
        if right is not None and right != i:
            r = self.members[right]
            may = 1 if (r.obsolete and not r.warned) else 0
        return must, may

    def use(self, i):
        m = self.members[i]
        if m.obsolete:
            m.warned = True

    # -- events -----------------------------------------------------------
    def _add(self, parent, family, items, contents_of_new):
        for j in items:
            if j >= len(self.contents):
                assert j == len(self.contents), "item ids are handed out consecutively"
                self.contents.append(contents_of_new[j])
                self.owner.append(family)
        self.members.append(Member(parent, family, items))
        return len(self.members) - 1

    def derive(self, i, items, contents_of_new=None):
        self.use(i)
        return self._add(i, self.members[i].family, items, contents_of_new or {})

    def unrelated(self, i, items, contents_of_new=None):
        """A method of member i returned a list holding none of i's item objects (observed): a use of i, and a new
        root in i's family (no isolation is claimed: the new items may share nested values with i's)."""
        self.use(i)
        return self._add(-1, self.members[i].family, items, contents_of_new or {})

    def edit(self, i, items, contents_of_new=None, op=None, right=None):
        self.use(i)
        new = self._add(i, self.members[i].family, items, contents_of_new or {})
        for x in [i] + self.ancestors(i):
            self.members[x].obsolete = True
        if op in VALUE_COPYING_JOINS and right is not None:
            self.merge(self.members[i].family, self.members[right].family)
        return new

    def deepcopy(self, i, items, contents_of_new=None):
        self.use(i)
        family = len(self.group)
        self.group.append(family)
        return self._add(-1, family, items, contents_of_new or {})

    def adopt(self, contents):
        """Take over the observed contents (what an edit computes is C15/C16's business, not C17's)."""
        self.contents[:len(contents)] = contents

    # -- canonical key ------------------------------------------------------
    def key(self):
        return (tuple(m.key() for m in self.members),
                tuple(self.contents),
                tuple(self.find(f) for f in range(len(self.group))))

    def n_obsolete(self):
        return sum(1 for m in self.members if m.obsolete)
