# -*- coding: utf-8 -*-
"""
Reference side of C12 (file round trips): what each file format can represent
(stated as rules, asserted on the alphabets before a run), the compression
magic numbers, and type-aware value comparison.

Nothing here imports dataiter: the oracle is plain Python.
"""

import datetime
import re

# ---------------------------------------------------------------------------
# compression magic (RFC 1952; bzip2 format; xz file format 1.0.4 section 2.1.1.1)

MAGIC = {
    ".gz": b"\x1f\x8b",
    ".bz2": b"BZh",
    ".xz": b"\xfd7zXZ\x00",
}


def magic_ok(suffix, head):
    return head is not None and head.startswith(MAGIC[suffix])


def self_test():
    """The table above against the standard library's own compressors."""
    import bz2, gzip, lzma
    assert magic_ok(".gz", gzip.compress(b"x"))
    assert magic_ok(".bz2", bz2.compress(b"x"))
    assert magic_ok(".xz", lzma.compress(b"x"))
    assert not magic_ok(".gz", b'"k"\n') and not magic_ok(".xz", None)


# ---------------------------------------------------------------------------
# CSV read through Arrow: which *text* survives type inference.
# Source: pyarrow.csv.ConvertOptions documentation (defaults of null_values,
# true_values, false_values; inference order null, int64, bool, date32, time32,
# timestamp, double, string; quoted_strings_can_be_null=True, so quoting does
# not protect a null spelling).

ARROW_NULLS = {"", "#N/A", "#N/A N/A", "#NA", "-1.#IND", "-1.#QNAN", "-NaN", "-nan", "1.#IND",
               "1.#QNAN", "N/A", "NA", "NULL", "NaN", "n/a", "nan", "null"}
ARROW_BOOLS = {"1", "0", "true", "false", "True", "False", "TRUE", "FALSE"}
# (Arrow's integer parser also reads unsigned hexadecimal: '0x10' is 16)
_NUMERIC = re.compile(r"[+-]?(\d+\.?\d*|\.\d+)([eE][+-]?\d+)?|[+-]?(inf|infinity|nan)|0x[0-9a-f]+", re.I)
_DATELIKE = re.compile(r"\d{4}-\d{1,2}(-\d{1,2})?([T ].*)?|\d{1,2}:\d{2}(:\d{2}(\.\d+)?)?")


def csv_text_representable(s):
    """True if a string cell keeps its type and value under Arrow's CSV type inference.

    Conservative: every string that merely *looks* like a null, a boolean, a
    number, a date, a time or a timestamp (also after trimming white space) is
    declared not representable, whatever the rest of its column holds. A lone
    carriage return is excluded as well (RFC 4180 knows CRLF only; CRLF inside a
    quoted field is representable)."""
    if not isinstance(s, str) or s == "":
        return False
    t = s.strip()
    if s in ARROW_NULLS or s in ARROW_BOOLS:
        return False
    if t and (t in ARROW_NULLS or t in ARROW_BOOLS):
        return False  # conservative: Arrow matches these spellings exactly, without trimming
    if t and (_NUMERIC.fullmatch(t) or _DATELIKE.fullmatch(t)):
        return False
    if "\r" in s.replace("\r\n", ""):
        return False
    if "\x00" in s:
        return False
    return True


def csv_pytext_representable(s):
    """Text a Python-csv ("unix" dialect) file can hold: any str without a lone CR or NUL."""
    return isinstance(s, str) and "\x00" not in s and "\r" not in s.replace("\r\n", "")


# Arrow types a timestamp with fractional seconds as timestamp[ns]; outside the
# int64-nanosecond range it cannot be represented in a CSV *as read by Arrow*.
NS_MIN = datetime.datetime(1677, 9, 22)
NS_MAX = datetime.datetime(2262, 4, 11)


def csv_datetime_representable(iso):
    v = datetime.datetime.fromisoformat(iso)
    return NS_MIN <= v <= NS_MAX


def encodable(text, encoding):
    try:
        text.encode(encoding)
        return True
    except UnicodeEncodeError:
        return False


# Names a headerless CSV can "hold": the ones the reader generates (documented
# as a, b, c, ... in dataiter.util.generate_colnames).
GENERATED_NAMES = list("abcdefghijklmnopqrstuvwxyz")

# ---------------------------------------------------------------------------
# values


def jsonable_float(x):
    return x == x and x not in (float("inf"), float("-inf"))


def value_class(x):
    if x is None:
        return "none"
    if isinstance(x, bool):
        return "bool"
    if isinstance(x, (int, float)):
        return "number"
    if isinstance(x, str):
        return "str"
    if isinstance(x, datetime.datetime):
        return "datetime"
    if isinstance(x, datetime.date):
        return "date"
    return type(x).__name__


def same_text_value(exp, got):
    """Equality of one cell after a *text* format (CSV, JSON): missing == missing only;
    1 == 1.0 and -0.0 == 0.0 (numbers compare by value, exactly); a bool is not a number
    and a string is not a number; a date equals the datetime at its midnight."""
    ce, cg = value_class(exp), value_class(got)
    if ce == "none" or cg == "none":
        return ce == cg
    if {ce, cg} == {"date", "datetime"}:
        d, t = (exp, got) if ce == "date" else (got, exp)
        return datetime.datetime(d.year, d.month, d.day) == t
    if ce != cg:
        return False
    return exp == got


def canon(x):
    """Hashable, order- and type-preserving key of a JSON-like Python value."""
    if x is None:
        return ("none",)
    if isinstance(x, bool):
        return ("bool", x)
    if isinstance(x, int):
        return ("int", x)
    if isinstance(x, float):
        return ("float", repr(x))
    if isinstance(x, str):
        return ("str", x)
    if isinstance(x, (list, tuple)):
        return (type(x).__name__, tuple(canon(y) for y in x))
    if isinstance(x, dict):
        return ("dict", tuple((k, canon(v)) for k, v in x.items()))
    return (type(x).__name__, repr(x))


def strings_in(x):
    if isinstance(x, str):
        yield x
    elif isinstance(x, (list, tuple)):
        for y in x:
            yield from strings_in(y)
    elif isinstance(x, dict):
        for k, v in x.items():
            yield from strings_in(k)
            yield from strings_in(v)
