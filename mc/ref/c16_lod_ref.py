# -*- coding: utf-8 -*-
"""
Reference model for C16: plain-Python nested-loop joins and dict grouping over
lists of dicts. Boring on purpose: no itemgetter, no reversed-dict trick, no
id sets - every match is found by scanning the right-hand list front to back.

Key equality is Python equality of the key *values* (None == None matches).
Items are compared by contents, independent of the order of their entries, with
the value type kept (1, True and 1.0 are different cells).
"""

import itertools


def ckey(item):
    """Canonical key of one item (entry order ignored, value type kept)."""
    try:
        key = tuple(sorted([(k, v.__class__.__name__, v) for k, v in item.items()]))
        hash(key)
        return key
    except TypeError:  # unhashable value or non-string keys: slow path
        return tuple(sorted(((repr(k), v.__class__.__name__, repr(v)) for k, v in item.items())))


def lkey(items):
    return tuple(ckey(x) for x in items)


def split_by(by):
    """['k', ('a', 'b')] -> (['k', 'a'], ['k', 'b'])."""
    by1 = [x if isinstance(x, str) else x[0] for x in by]
    by2 = [x if isinstance(x, str) else x[1] for x in by]
    return by1, by2


def norm_by(by):
    """JSON turns (left, right) tuples into lists; dataiter wants str or tuple."""
    return [x if isinstance(x, str) else tuple(x) for x in by]


def keyvals(item, names):
    return [item[n] for n in names]


def keys_equal(a, b):
    return len(a) == len(b) and all(x == y for x, y in zip(a, b))


def first_matches(left, right, by1, by2):
    """For every left item the index of the FIRST right item with equal key values, else None."""
    out = []
    for l in left:
        lk = keyvals(l, by1)
        hit = None
        for j, r in enumerate(right):
            if keys_equal(lk, keyvals(r, by2)):
                hit = j
                break
        out.append(hit)
    return out


def nonkey(item, names):
    return {k: v for k, v in item.items() if k not in names}


def merge(l, r, by2):
    """The statement's merge: left item updated with the non-key entries of the right item."""
    out = dict(l)
    out.update(nonkey(r, by2))
    return out


def ref_left_join(left, right, by1, by2, fm=None):
    fm = first_matches(left, right, by1, by2) if fm is None else fm
    return [dict(l) if j is None else merge(l, right[j], by2) for l, j in zip(left, fm)]


def ref_inner_join(left, right, by1, by2, fm=None):
    fm = first_matches(left, right, by1, by2) if fm is None else fm
    return [merge(l, right[j], by2) for l, j in zip(left, fm) if j is not None]


def ref_semi_join(left, right, by1, by2, fm=None):
    fm = first_matches(left, right, by1, by2) if fm is None else fm
    return [dict(l) for l, j in zip(left, fm) if j is not None]


def ref_anti_join(left, right, by1, by2, fm=None):
    fm = first_matches(left, right, by1, by2) if fm is None else fm
    return [dict(l) for l, j in zip(left, fm) if j is None]


REF = {
    "left_join": ref_left_join,
    "inner_join": ref_inner_join,
    "semi_join": ref_semi_join,
    "anti_join": ref_anti_join,
}


# ---------------------------------------------------------------------------
# full_join: a checker of the stated relation, not one expected value
# ---------------------------------------------------------------------------

def right_representations(r, left, by1, by2):
    """
    Every form in which right item `r` may appear as an *additional* item of a
    full join: alone, or merged with one left item whose key values are equal.
    In a merge the right item's non-key entries win (that is the only merge the
    statement defines, and the only one that still *contains* the right item).
    The statement does not say under which names a right-only item carries its
    key values when the names differ, so right names, left names and both are
    accepted.
    """
    kv = keyvals(r, by2)
    payload = nonkey(r, by2)
    forms = [dict(zip(by2, kv))]
    if list(by1) != list(by2):
        forms.append(dict(zip(by1, kv)))
        both = dict(zip(by1, kv))
        both.update(zip(by2, kv))
        forms.append(both)
    bases = [{}]
    for l in left:
        if keys_equal(keyvals(l, by1), kv):
            bases.append(nonkey(l, by1))
    out = set()
    for base in bases:
        for form in forms:
            x = dict(base)
            x.update(form)
            x.update(payload)
            out.add(ckey(x))
    return out


def check_full_join(result, left, right, by1, by2):
    """
    Relation: (1) the left-join items (every left item, in order, with its
    merge) are a subsequence of the result; (2) every other result item is a
    right item, alone or merged with a left item of EQUAL key values; (3) every
    right item is represented at least once (as the first match merged into a
    left item, or by an additional item).
    Returns (ok, clause, detail).
    """
    fm = first_matches(left, right, by1, by2)
    want = [ckey(x) for x in ref_left_join(left, right, by1, by2, fm)]
    got = [ckey(x) for x in result]
    reps = [right_representations(r, left, by1, by2) for r in right]
    allowed = set().union(*reps) if reps else set()
    merged_in = {j for j in fm if j is not None}
    n, m = len(got), len(want)
    if m > n:
        return False, "left-items", f"result has {n} items, fewer than the {m} left items"
    embeddings = 0
    extras_ok = 0
    for pos in itertools.combinations(range(n), m):
        if any(got[p] != want[i] for i, p in enumerate(pos)):
            continue
        embeddings += 1
        chosen = set(pos)
        extras = [got[p] for p in range(n) if p not in chosen]
        if any(x not in allowed for x in extras):
            continue
        extras_ok += 1
        extra_set = set(extras)
        if all(j in merged_in or (reps[j] & extra_set) for j in range(len(right))):
            return True, None, ""
    if embeddings == 0:
        return False, "left-items", "the left items with their first-match merges do not appear once each, in order"
    if extras_ok == 0:
        return False, "extra-item", ("an additional item is neither a right item nor a right item merged with a "
                                     "left item of equal key values")
    missing = [j for j in range(len(right)) if j not in merged_in and not (reps[j] & set(got))]
    return False, "right-item-missing", f"right item(s) at index {missing} appear nowhere in the result"


# ---------------------------------------------------------------------------
# aggregate
# ---------------------------------------------------------------------------

def none_last(values):
    return tuple((v is None, 0 if v is None else v) for v in values)


def ref_groups(items, by):
    """Ordered list of (key values, [indices of the group's items in original order])."""
    groups = []
    for i, item in enumerate(items):
        kv = keyvals(item, by)
        for g in groups:
            if keys_equal(g[0], kv):
                g[1].append(i)
                break
        else:
            groups.append((kv, [i]))
    # one key at a time, last key first, each pass stable => ordered by keys, None last
    for pos in reversed(range(len(by))):
        with_value = [g for g in groups if g[0][pos] is not None]
        without = [g for g in groups if g[0][pos] is None]
        ordered = []
        for g in with_value:  # insertion sort, stable
            at = len(ordered)
            while at > 0 and g[0][pos] < ordered[at - 1][0][pos]:
                at -= 1
            ordered.insert(at, g)
        groups = ordered + without
    return groups
