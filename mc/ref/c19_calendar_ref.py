# -*- coding: utf-8 -*-
"""
Reference side of C19: plain `datetime` and `re`, one element at a time.

Nothing here imports dataiter or NumPy. A calendar token is an ISO string
("2020-02-29", "2020-02-29T23", "2020-02-29T23:59:59.999999") or None (NaT);
the unit decides whether the element is a `datetime.date` (unit D, exactly
what a datetime64[D] element is to Python) or a `datetime.datetime`.
"""

import datetime
import re

EXTRACTORS = ["year", "month", "day", "weekday", "isoweekday", "isoweek", "quarter",
              "hour", "minute", "second", "microsecond"]
TIME_OF_DAY = {"hour", "minute", "second", "microsecond"}
FINE_UNITS = ("s", "ms", "us")


def element(unit, tok):
    """The Python object a non-missing element of a datetime64[unit] vector stands for."""
    if tok is None:
        return None
    if unit == "D":
        return datetime.date.fromisoformat(tok)
    date, _, time = tok.partition("T")
    y, m, d = (int(p) for p in date.split("-"))
    hh = mm = ss = us = 0
    if time:
        clock, _, frac = time.partition(".")
        parts = [int(p) for p in clock.split(":")]
        hh = parts[0]
        mm = parts[1] if len(parts) > 1 else 0
        ss = parts[2] if len(parts) > 2 else 0
        if frac:
            us = int((frac + "000000")[:6])
    return datetime.datetime(y, m, d, hh, mm, ss, us)


def extract(name, e):
    if name == "isoweek":
        return e.isocalendar()[1]
    if name == "quarter":
        return (e.month + 2) // 3
    if name in ("weekday", "isoweekday"):
        return getattr(e, name)()
    return getattr(e, name)


def replace(e, kwargs):
    """e.replace(**kwargs); returns (ok, value). ok is False when Python itself rejects it."""
    try:
        return True, e.replace(**kwargs)
    except (ValueError, TypeError, OverflowError):
        return False, None


def strftime(e, fmt):
    return e.strftime(fmt)


def as_datetime(e):
    if isinstance(e, datetime.datetime):
        return e
    return datetime.datetime(e.year, e.month, e.day)


def python_round_trips(e, fmt):
    """Is `fmt` unambiguous for `e` by Python's own strftime/strptime?"""
    try:
        return datetime.datetime.strptime(e.strftime(fmt), fmt) == as_datetime(e)
    except ValueError:
        return False


# ---------------------------------------------------------------------------
# re

def summary(x):
    """Hashable, comparable digest of whatever an re function returns."""
    if x is None:
        return None
    if isinstance(x, re.Match):
        return ("Match", x.span(), x.groups())
    if isinstance(x, list):
        return ("list", tuple(summary(y) for y in x))
    if isinstance(x, tuple):
        return ("tuple", tuple(summary(y) for y in x))
    if isinstance(x, str):
        return ("str", str(x))
    if isinstance(x, bool):
        return ("bool", x)
    if isinstance(x, int):
        return ("int", int(x))
    return ("other", type(x).__name__, repr(x))


def re_call(fn, pattern, string, flags=0, repl=None, count=0):
    """The same call on Python's re. `count` is count (sub/subn) or maxsplit (split)."""
    if fn in ("findall", "fullmatch", "match", "search"):
        return getattr(re, fn)(pattern, string, flags=flags)
    if fn == "split":
        return re.split(pattern, string, maxsplit=count, flags=flags)
    if fn in ("sub", "subn"):
        return getattr(re, fn)(pattern, repl, string, count=count, flags=flags)
    raise ValueError(fn)
