# -*- coding: utf-8 -*-
"""
Reference oracle for C18 (GeoJSON). Plain Python on the case dict; no
dataiter, no NumPy. Every check_* returns None when the clause holds, or
(clause, detail).

case = {"features": [{"properties": {...}, "geometry": obj|None}, ...],
        "extra": [[name, value], ...],      other top-level members, in file order
        "pos": "last" | "first",            where "features" sits among the members
        "indent": "default" | None | int, "suffix": "" | ".gz"}
"""

import json


def document(case):
    """The FeatureCollection the input file holds."""
    feats = [{"type": "Feature", "properties": f["properties"], "geometry": f["geometry"]} for f in case["features"]]
    top = {"type": "FeatureCollection"}
    if case.get("pos") == "first":
        top["features"] = feats
    for name, value in case["extra"]:
        if name in ("type", "features"):
            raise ValueError(f"member name {name!r} is not an *extra* member")
        top[name] = value
    if case.get("pos") != "first":
        top["features"] = feats
    return top


def nontrivial(case):
    feats = case["features"]
    keysets = {tuple(sorted(f["properties"])) for f in feats}
    if len(keysets) >= 2 or case["extra"]:
        return True
    for f in feats:
        if f["geometry"] is None or any(v is None or v == "" for v in f["properties"].values()):
            return True
    return False


def _reject_constant(name):
    raise ValueError(f"not valid JSON: bare constant {name}")


def strict_loads(text):
    """RFC 8259 parse: NaN / Infinity / -Infinity are rejected."""
    return json.loads(text, parse_constant=_reject_constant)


def norm(v):
    """'' is the missing string, null and absent are the same thing (DESIGN 3.4)."""
    return None if (v is None or (isinstance(v, str) and v == "")) else v


def deep_eq(a, b):
    """JSON value equality: 1 == 1.0, a bool only equals a bool, containers element-wise."""
    if isinstance(a, bool) or isinstance(b, bool):
        return isinstance(a, bool) and isinstance(b, bool) and a == b
    if a is None or b is None:
        return a is None and b is None
    if isinstance(a, dict) or isinstance(b, dict):
        if not (isinstance(a, dict) and isinstance(b, dict)) or set(a) != set(b):
            return False
        return all(deep_eq(a[k], b[k]) for k in a)
    if isinstance(a, (list, tuple)) or isinstance(b, (list, tuple)):
        if not (isinstance(a, (list, tuple)) and isinstance(b, (list, tuple))) or len(a) != len(b):
            return False
        return all(deep_eq(x, y) for x, y in zip(a, b))
    if isinstance(a, str) or isinstance(b, str):
        return isinstance(a, str) and isinstance(b, str) and a == b
    if isinstance(a, (int, float)) and isinstance(b, (int, float)):
        return a == b
    return False


def cell_eq(a, b):
    a, b = norm(a), norm(b)
    if isinstance(a, float) and isinstance(b, float) and a == 0 and b == 0:
        import math
        return math.copysign(1, a) == math.copysign(1, b)   # cells of a frame: the sign of a zero is part of the value
    return deep_eq(a, b)


def expected_columns(case):
    keys = []
    for f in case["features"]:
        for k in f["properties"]:
            if k not in keys:
                keys.append(k)
    return {k: [norm(f["properties"].get(k)) for f in case["features"]] for k in keys}


def expected_metadata(case):
    top = document(case)
    del top["features"]
    return top


def check_read(case, obs):
    """obs = {"names", "nrow", "cols": name -> (cells, na flags), "geometry", "metadata"} read off the frame."""
    feats = case["features"]
    want = expected_columns(case)
    if obs["nrow"] != len(feats):
        return ("rows", f"{obs['nrow']} rows for {len(feats)} features")
    names = obs["names"]
    if len(set(names)) != len(names) or set(names) != set(want) | {"geometry"}:
        return ("columns", f"columns {names}, expected {list(want) + ['geometry']} in any order")
    for k, exp in want.items():
        cells, flags = obs["cols"][k]
        if len(cells) != len(exp):
            return ("rows", f"column {k!r} has {len(cells)} cells for {len(feats)} features")
        for i, (got, e) in enumerate(zip(cells, exp)):
            if bool(flags[i]) != (e is None):
                return ("missing", f"column {k!r} row {i}: is_na={flags[i]} but the feature holds {feats[i]['properties'].get(k, '<absent>')!r}")
            if not cell_eq(got, e):
                return ("values", f"column {k!r} row {i}: got {got!r}, feature holds {e!r}; column {cells!r} expected {exp!r}")
    geo = obs["geometry"]
    if len(geo) != len(feats):
        return ("rows", f"geometry column has {len(geo)} cells for {len(feats)} features")
    for i, f in enumerate(feats):
        if not deep_eq(geo[i], f["geometry"]):
            return ("geometry", f"row {i}: geometry {geo[i]!r}, expected {f['geometry']!r}")
    meta = expected_metadata(case)
    if not deep_eq(obs["metadata"], meta):
        return ("metadata", f"metadata {obs['metadata']!r}, expected {meta!r}")
    return None


def check_written(case, doc):
    """doc = strict parse of the written file."""
    feats = case["features"]
    if not isinstance(doc, dict) or not isinstance(doc.get("features"), list):
        return ("features", f"top level is not an object with a features array: {str(doc)[:200]}")
    got = doc["features"]
    if len(got) != len(feats):
        return ("features", f"{len(got)} features written for {len(feats)}")
    for i, (g, f) in enumerate(zip(got, feats)):
        if not isinstance(g, dict) or g.get("type") != "Feature" or not set(g) <= {"type", "properties", "geometry"}:
            return ("features", f"feature {i} is {g!r}")
        if not deep_eq(g.get("geometry"), f["geometry"]):
            return ("features", f"feature {i}: geometry {g.get('geometry')!r}, expected {f['geometry']!r}")
        props = g.get("properties")
        if props is None:
            props = {}
        if not isinstance(props, dict):
            return ("features", f"feature {i}: properties {props!r}")
        a = {k: v for k, v in props.items() if norm(v) is not None}
        b = {k: v for k, v in f["properties"].items() if norm(v) is not None}
        if not deep_eq(a, b):
            return ("features", f"feature {i}: properties {props!r}, expected {f['properties']!r} (absent == null == '')")
    return None


def check_same(a, b):
    """Two observations of frames: same columns (as a set), values, missing positions, geometry, metadata."""
    if a["nrow"] != b["nrow"]:
        return ("rows", f"{b['nrow']} rows, before {a['nrow']}")
    if set(a["names"]) != set(b["names"]) or len(b["names"]) != len(set(b["names"])):
        return ("columns", f"columns {b['names']}, before {a['names']}")
    for k, (cells, flags) in a["cols"].items():
        cells2, flags2 = b["cols"][k]
        if list(flags) != list(flags2):
            return ("missing", f"column {k!r}: missing positions {flags2}, before {flags}")
        if len(cells) != len(cells2) or not all(cell_eq(x, y) for x, y in zip(cells, cells2)):
            return ("values", f"column {k!r}: {cells2!r}, before {cells!r}")
    if not deep_eq(a["geometry"], b["geometry"]):
        return ("geometry", f"geometry {b['geometry']!r}, before {a['geometry']!r}")
    if not deep_eq(a["metadata"], b["metadata"]):
        return ("metadata", f"metadata {b['metadata']!r}, before {a['metadata']!r}")
    return None
