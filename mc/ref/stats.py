# -*- coding: utf-8 -*-
"""
Textbook statistics with the documented NA policy and defaults (C07/C08/C04).

Values are plain Python cells (None = missing). MISSING is the marker for "the
column's missing value / NaN" in results; numeric results are floats or ints.
"""

import math

MISSING = None

NUMERIC = ("mean", "median", "quantile", "std", "var", "sum")
PROPAGATING = ("mean", "median", "quantile", "std", "var", "sum", "min", "max")
DEFAULT_DROP_NA = {
    "all": False, "any": False, "count": False, "count_unique": False, "first": False, "last": False, "nth": False,
    "min": True, "max": True, "mode": True, "mean": True, "median": True, "quantile": True, "std": True, "var": True, "sum": True,
}


def num(v):
    return int(v) if isinstance(v, bool) else v


def reference(helper, xs, drop_na=None, numeric_kind=True, **kw):
    """
    Return a set-like description of acceptable results: ("value", v) | ("missing",) | ("either", [..]).
    xs: list of cells with None for missing.
    """
    if drop_na is None:
        drop_na = DEFAULT_DROP_NA[helper]
    has_na = any(x is None for x in xs)
    vals = [x for x in xs if x is not None] if drop_na else list(xs)
    n = len(vals)
    na_in = (not drop_na) and has_na

    if helper == "count":
        return ("value", n)
    if helper == "count_unique":
        nm = [x for x in vals if x is not None]
        distinct = len(set(nm))
        k = sum(1 for x in vals if x is None)
        if k == 0:
            return ("value", distinct)
        if k == 1:
            return ("value", distinct + 1)
        return ("either", [distinct + 1, distinct + k])  # DESIGN 3.5: each NaN distinct, or all NaN one value
    if helper == "all":
        return ("value", all(bool(x) if x is not None else True for x in vals))
    if helper == "any":
        return ("value", any(bool(x) if x is not None else True for x in vals))
    if helper in ("first", "last", "nth"):
        index = {"first": 0, "last": -1}.get(helper, kw.get("index"))
        if -n <= index < n:
            v = vals[index]
            return ("missing",) if v is None else ("value", v)
        return ("missing",)
    if helper == "mode":
        if n == 0:
            return ("missing",)
        k = sum(1 for x in vals if x is None)
        if k >= 2:
            return ("any",)  # DESIGN 3.5
        best, bestc = None, 0
        seen = []
        for x in vals:
            if any((x is None and s is None) or (x is not None and s is not None and x == s) for s in seen):
                continue
            seen.append(x)
            c = sum(1 for y in vals if (y is None and x is None) or (y is not None and x is not None and y == x))
            if c > bestc:
                best, bestc = x, c
        return ("missing",) if best is None else ("value", best)
    if helper in ("min", "max"):
        if n == 0:
            return ("missing",)
        if na_in:
            if numeric_kind:
                return ("missing",)
            nm = [x for x in vals if x is not None]
            if not nm:
                return ("missing",)
            return ("either", [MISSING, min(nm) if helper == "min" else max(nm)])  # DESIGN 3.5
        return ("value", min(vals) if helper == "min" else max(vals))
    # numeric reductions
    if helper in ("sum", "mean") and any(isinstance(v, float) and math.isinf(v) for v in vals) and not na_in:
        # IEEE arithmetic: an infinity stays, infinities of both signs give NaN
        signs = {v > 0 for v in vals if isinstance(v, float) and math.isinf(v)}
        return ("missing",) if len(signs) == 2 else ("value", math.inf if signs == {True} else -math.inf)
    if helper == "sum":
        if na_in:
            return ("missing",)
        if any(isinstance(v, float) for v in vals):
            return ("value", math.fsum(num(v) for v in vals))
        total = sum(num(v) for v in vals)
        if not -2 ** 63 <= total < 2 ** 63:
            return ("any",)  # the sum of an int64 column that does not fit int64 is not representable in the column's type
        return ("value", total)
    if helper in ("mean", "median", "quantile"):
        if n < 1:
            return ("missing",)
        if na_in:
            return ("missing",)
        fv = sorted(float(num(v)) for v in vals)
        if helper == "mean":
            return ("value", math.fsum(fv) / n)
        q = 0.5 if helper == "median" else kw["q"]
        pos = q * (n - 1)
        lo = int(math.floor(pos))
        hi = min(lo + 1, n - 1)
        frac = pos - lo
        return ("value", fv[lo] + (fv[hi] - fv[lo]) * frac)
    if helper in ("std", "var"):
        ddof = kw.get("ddof", 0)
        if n < 2:
            if n == 1 and ddof == 0 and not na_in:
                return ("either", [MISSING, 0.0])  # the statement's "needs" is ambiguous for a single element with ddof=0
            return ("missing",)
        if na_in:
            return ("missing",)
        fv = [float(num(v)) for v in vals]
        m = math.fsum(fv) / n
        var = math.fsum((x - m) ** 2 for x in fv) / (n - ddof)
        return ("value", var if helper == "var" else math.sqrt(var))
    raise ValueError(helper)


def is_missing_result(v):
    """None / NaN / NaT / '' as the result of a helper."""
    if v is None:
        return True
    if isinstance(v, float) and v != v:
        return True
    if isinstance(v, str) and v == "":
        return True
    try:
        import numpy as np
        if isinstance(v, (np.datetime64, np.timedelta64)) and np.isnat(v):
            return True
        if isinstance(v, np.floating) and np.isnan(v):
            return True
    except Exception:
        pass
    return False


def close(a, b):
    if isinstance(a, bool) or isinstance(b, bool):
        return bool(a) == bool(b) and (isinstance(a, (bool, int, float)) and isinstance(b, (bool, int, float)))
    if isinstance(a, (int, float)) and isinstance(b, (int, float)):
        if a == b:
            return True
        if any(isinstance(x, float) and (x != x or math.isinf(x)) for x in (a, b)):
            return False   # an infinity (or NaN) is only equal to itself: no tolerance reaches it
        return abs(a - b) <= 1e-12 + 1e-9 * max(abs(a), abs(b))
    return a == b


def accepts(expected, got, same_value):
    """expected from reference(); got = a cell (None for missing) or raw scalar."""
    kind = expected[0]
    if kind == "any":
        return True
    if kind == "missing":
        return is_missing_result(got)
    if kind == "value":
        if is_missing_result(got):
            return False
        return close(expected[1], got) if isinstance(expected[1], (int, float)) and isinstance(got, (int, float)) else same_value(expected[1], got)
    if kind == "either":
        for e in expected[1]:
            if e is None:
                if is_missing_result(got):
                    return True
            elif not is_missing_result(got) and (close(e, got) if isinstance(e, (int, float)) and isinstance(got, (int, float)) else same_value(e, got)):
                return True
        return False
    raise ValueError(kind)
