# -*- coding: utf-8 -*-
"""
Reference side of C20: byte-level snapshots of the four classes and a checker
for the layout of a data frame rendering. Boring on purpose: no dataiter
helper (ulen, upad, dtype_label, is_na) is used to judge dataiter's output.
"""

import re
import numpy as np
import wcwidth

SEPARATORS = ("", ".")
RULE_CHARS = set(" ─-=━")


# ---------------------------------------------------------------------------
# snapshots

def _cell_snap(x):
    """Identity + printable form of one object cell (NaN-safe, comparable with ==)."""
    if x is None or isinstance(x, (bool, int, str, bytes)):
        return (type(x).__name__, x)
    return (type(x).__name__, id(x), repr(x))


def array_snap(a):
    a = np.asarray(a)
    head = (str(a.dtype), a.shape)
    if a.dtype.kind == "O":
        return head + (tuple(_cell_snap(x) for x in a),)
    if isinstance(a.dtype, np.dtypes.StringDType):
        return head + (tuple(a.tolist()),)
    return head + (a.tobytes(),)


def vector_snap(v):
    return (type(v).__name__, array_snap(v), tuple(sorted(getattr(v, "__dict__", {}))))


def frame_snap(d):
    cols = tuple((name, type(col).__name__, id(col), array_snap(col)) for name, col in dict.items(d))
    extra = ()
    if "metadata" in vars(d):
        extra = (repr(vars(d)["metadata"]),)
    return (type(d).__name__, cols, tuple(sorted(vars(d))), tuple(getattr(d, "_group_colnames", ()) or ()), extra)


def lod_snap(l):
    items = tuple((id(x), type(x).__name__, tuple((k, _cell_snap(v)) for k, v in dict.items(x))) for x in list.__iter__(l))
    flags = tuple((k, id(v) if k == "_predecessor" else repr(v)) for k, v in sorted(vars(l).items()))
    return (type(l).__name__, items, flags)


def snapshot(obj, cls):
    if cls == "Vector":
        return vector_snap(obj)
    if cls in ("DataFrame", "GeoJSON"):
        return frame_snap(obj)
    if cls == "ListOfDicts":
        return lod_snap(obj)
    raise ValueError(cls)


# ---------------------------------------------------------------------------
# layout of a data frame rendering

def dtype_label(a):
    a = np.asarray(a)
    if isinstance(a.dtype, np.dtypes.StringDType):
        return "string"
    return str(a.dtype)


def split_runs(text):
    """Maximal runs of lines that are not separator lines ('' or '.')."""
    runs, cur = [], []
    for line in text.split("\n"):
        if line in SEPARATORS:
            if cur:
                runs.append(cur)
                cur = []
        else:
            cur.append(line)
    if cur:
        runs.append(cur)
    return runs


def is_rule(line):
    return bool(line.strip()) and set(line) <= RULE_CHARS


def embed(needles, haystacks):
    """
    Greedy left-most, in-order, non-overlapping embedding of `needles` into the
    sequence of `haystacks` (one per block). Returns the index of the first
    needle that cannot be placed, or None. Greedy is complete for this
    problem: it places each needle no later than any valid embedding does.
    """
    b, pos = 0, 0
    for i, needle in enumerate(needles):
        while True:
            if b >= len(haystacks):
                return i
            j = haystacks[b].find(needle, pos)
            if j >= 0:
                pos = j + len(needle)
                break
            b, pos = b + 1, 0
    return None


def check_frame_text(text, names, labels, nrow, shown):
    """
    Returns a list of (clause, detail). Demands only what C20 states:
    every name and every dtype label shown; each block has `shown` data rows;
    all lines of a block have one display width; total stated when rows are cut.
    A block is a run of >= 2 lines: names line, dtype line, optional rule lines,
    data rows. One-line runs are notes (e.g. the total row count).
    """
    if not names:
        return []  # zero columns: nothing to show; only totality is demanded
    problems = []
    runs = split_runs(text)
    blocks = [r for r in runs if len(r) >= 2]
    notes = [r[0] for r in runs if len(r) == 1]
    if not blocks:
        return [("column-name", f"no block of columns in rendering {text!r}")]
    for k, block in enumerate(blocks):
        widths = [wcwidth.wcswidth(line) for line in block]
        if min(widths) < 0 or len(set(widths)) != 1:
            problems.append(("block-width", f"block {k}: display widths of lines {widths}: {block!r}"))
            break
    for k, block in enumerate(blocks):
        ndata = len(block) - 2 - sum(1 for line in block[2:] if is_rule(line))
        if ndata != shown:
            problems.append(("data-rows", f"block {k} has {ndata} data rows, expected min(nrow={nrow}, max_rows)={shown}: {block!r}"))
            break
    i = embed(names, [b[0] for b in blocks])
    if i is not None:
        problems.append(("column-name", f"column name {names[i]!r} (column {i}) not found in the header lines {[b[0] for b in blocks]!r}"))
    i = embed(labels, [b[1] for b in blocks])
    if i is not None:
        problems.append(("dtype-label", f"dtype label {labels[i]!r} (column {i}) not found in the dtype lines {[b[1] for b in blocks]!r}"))
    if shown < nrow:
        pat = re.compile(rf"(?<![0-9]){nrow}(?![0-9])")
        if not any(pat.search(x) for x in notes):
            problems.append(("total-row-count", f"{shown} of {nrow} rows shown but no line outside the blocks states {nrow}: notes {notes!r}"))
    return problems
