# -*- coding: utf-8 -*-
"""
Reference model of a data frame: an ordered list of [name, cells] with None as
the one missing value. Boring on purpose: plain Python lists, no NumPy.
Used in lock-step by the breadth-first searches (C01, C06, C09).
"""


class Rejected(Exception):
    """The model says the operation must be rejected (length mismatch)."""


def key_eq(a, b):
    if a is None or b is None:
        return a is None and b is None
    return a == b


def order_key(v):
    import datetime
    if isinstance(v, bool):
        return int(v)
    if isinstance(v, str):
        return [ord(c) for c in v]
    if isinstance(v, datetime.datetime):
        return (v - datetime.datetime(1970, 1, 1)) // datetime.timedelta(microseconds=1)
    if isinstance(v, datetime.date):
        return (v - datetime.date(1970, 1, 1)).days * 86400 * 10 ** 6
    if isinstance(v, datetime.timedelta):
        return v // datetime.timedelta(microseconds=1)
    return v


class T:
    def __init__(self, cols=()):
        self.cols = [[n, list(c)] for n, c in cols]

    # -- basics ---------------------------------------------------------
    @property
    def names(self):
        return [n for n, _ in self.cols]

    @property
    def nrow(self):
        return len(self.cols[0][1]) if self.cols else 0

    @property
    def ncol(self):
        return len(self.cols)

    def get(self, name):
        for n, c in self.cols:
            if n == name:
                return c
        raise KeyError(name)

    def has(self, name):
        return any(n == name for n, _ in self.cols)

    def copy(self):
        return T(self.cols)

    def rows(self):
        return list(zip(*[c for _, c in self.cols])) if self.cols else []

    def take(self, ids):
        return T([[n, [c[i] for i in ids]] for n, c in self.cols])

    def as_map(self):
        return {n: c for n, c in self.cols}

    # -- subsetting -----------------------------------------------------
    def filter(self, mask):
        return self.take([i for i in range(self.nrow) if mask[i]])

    def filter_out(self, mask):
        return self.take([i for i in range(self.nrow) if not mask[i]])

    def slice(self, rows):
        n = self.nrow
        return self.take([i % n if n else i for i in rows])

    def slice_off(self, rows):
        n = self.nrow
        drop = {i % n for i in rows} if n else set()
        return self.take([i for i in range(n) if i not in drop])

    def head(self, k):
        return self.take(range(min(k, self.nrow)))

    def tail(self, k):
        n = self.nrow
        return self.take(range(n - min(k, n), n))

    def drop_na(self, names):
        cs = [self.get(x) for x in names]
        return self.take([i for i in range(self.nrow) if not any(c[i] is None for c in cs)])

    def unique(self, names=None):
        names = names or self.names
        cs = [self.get(x) for x in names]
        seen, keep = [], []
        for i in range(self.nrow):
            key = tuple(c[i] for c in cs)
            if not any(all(key_eq(a, b) for a, b in zip(key, s)) for s in seen):
                seen.append(key)
                keep.append(i)
        return self.take(keep)

    def sort_candidates(self, name, dir):
        """All orders the statement allows for a single-key sort (stable; NA at the end when ascending, at either end otherwise)."""
        c = self.get(name)
        nm = [i for i in range(self.nrow) if c[i] is not None]
        na = [i for i in range(self.nrow) if c[i] is None]
        nm.sort(key=lambda i: order_key(c[i]), reverse=False)
        if dir < 0:
            # stable descending: equal keys keep input order
            groups = []
            for i in nm:
                if groups and order_key(c[groups[-1][0]]) == order_key(c[i]):
                    groups[-1].append(i)
                else:
                    groups.append([i])
            nm = [i for g in reversed(groups) for i in g]
            return [self.take(nm + na), self.take(na + nm)]
        return [self.take(nm + na)]

    # -- joins (single partner, keys by name pairs) -------------------------
    def _first_match(self, other, by):
        lk = [self.get(a) for a, _ in by]
        rk = [other.get(b) for _, b in by]
        out = []
        for i in range(self.nrow):
            m = None
            if not any(k[i] is None for k in lk):
                for r in range(other.nrow):
                    if all(rk[j][r] is not None and lk[j][i] == rk[j][r] for j in range(len(by))):
                        m = r
                        break
            out.append(m)
        return out

    def join(self, kind, other, by):
        match = self._first_match(other, by)
        rkeys = {b for _, b in by}
        extras = [n for n in other.names if n not in rkeys and not self.has(n)]
        if kind == "semi_join":
            return self.take([i for i in range(self.nrow) if match[i] is not None])
        if kind == "anti_join":
            return self.take([i for i in range(self.nrow) if match[i] is None])
        ids = list(range(self.nrow)) if kind == "left_join" else [i for i in range(self.nrow) if match[i] is not None]
        out = self.take(ids)
        for n in extras:
            oc = other.get(n)
            out.cols.append([n, [None if match[i] is None else oc[match[i]] for i in ids]])
        return out

    # -- combining ------------------------------------------------------
    def rbind(self, others):
        frames = [self] + list(others)
        names = []
        for f in frames:
            for n in f.names:
                if n not in names:
                    names.append(n)
        out = []
        for n in names:
            vals = []
            for f in frames:
                vals += list(f.get(n)) if f.has(n) else [None] * f.nrow
            out.append([n, vals])
        return T(out)

    def _fit(self, vals, allow_empty_frame=True):
        """Broadcast rule of the statement: scalars / length-one values broadcast, other mismatches rejected."""
        if not self.cols:
            return list(vals)
        n = self.nrow
        if len(vals) == n:
            return list(vals)
        if len(vals) == 1 and n >= 1:
            return list(vals) * n
        raise Rejected(f"length {len(vals)} into {n} rows")

    def cbind(self, other):
        out = self.copy()
        for n, c in other.cols:
            if out.has(n):
                continue
            out.cols.append([n, self._fit(c)])
        return out

    def update(self, other):
        out = T([[n, c] for n, c in self.cols if not other.has(n)])
        for n, c in other.cols:
            out.cols.append([n, self._fit(c)])
        return out

    def modify(self, name, vals):
        vals = self._fit(vals)
        out = self.copy()
        for col in out.cols:
            if col[0] == name:
                col[1] = vals
                return out
        out.cols.append([name, vals])
        return out

    def select(self, names):
        return T([[n, self.get(n)] for n in names])

    def unselect(self, names):
        return T([[n, c] for n, c in self.cols if n not in names])

    def rename(self, to_from):
        fm_to = {v: k for k, v in to_from.items()}
        return T([[fm_to.get(n, n), c] for n, c in self.cols])

    def count(self, by):
        cs = [self.get(x) for x in by]
        groups = []
        for i in range(self.nrow):
            key = tuple(c[i] for c in cs)
            for g in groups:
                if all(key_eq(a, b) for a, b in zip(g[0], key)):
                    g[1] += 1
                    break
            else:
                groups.append([key, 1])
        groups.sort(key=lambda g: tuple((v is None, order_key(v) if v is not None else 0) for v in g[0]))
        out = [[n, [g[0][j] for g in groups]] for j, n in enumerate(by)]
        out.append(["n", [g[1] for g in groups]])
        return T(out)

    # -- in-place edits -----------------------------------------------
    def setitem(self, name, vals):
        vals = self._fit(vals)
        for col in self.cols:
            if col[0] == name:
                col[1] = vals
                return
        self.cols.append([name, vals])

    def delitem(self, name):
        self.get(name)
        self.cols = [c for c in self.cols if c[0] != name]

    def popitem(self):
        self.cols.pop()

    def set_colnames(self, new):
        mapping = dict(zip(self.names, new))
        self.cols = [[mapping.get(n, n), c] for n, c in self.cols]
