# -*- coding: utf-8 -*-
"""
Value alphabets, column construction from JSON-able tokens, and the one
normaliser through which checks read cells back (DESIGN §3.2, §4).

A column is described by (kind, tokens). Tokens are JSON-native: None is the
missing value of the kind; floats and dates are written as strings so that
NaN/inf/-0.0 and calendar values survive a replay file unchanged.
"""

import datetime
import os
import itertools
import numpy as np

import dataiter as di
from dataiter import Vector, DataFrame, DataFrameColumn, dtypes

LONG_A = "a" * 50
LONG_B = "a" * 50 + "b"  # agrees with LONG_A in the first 50 characters (a comparison through a truncating cast ties them)

# ---------------------------------------------------------------------------
# kinds

KINDS = {
    "f8": "float64",
    "i8": "int64",
    "u1": "uint8",
    "i4": "int32",
    "i1": "int8",
    "i2": "int16",
    "u4": "uint32",
    "f4": "float32",
    "b1": "bool",
    "str": "StringDType",
    "U": "fixed-width unicode",
    "D": "datetime64[D]",
    "s": "datetime64[s]",
    "ms": "datetime64[ms]",
    "us": "datetime64[us]",
    "td": "timedelta64[D]",
    "f16": "long double",
    "ns": "datetime64[ns]",
    "obj": "object",
}


def np_array(kind, toks):
    """Build the NumPy array a user would hand to dataiter: plain (contiguous, writable) unless the shard asked,
    through MC_ARRAY_FORM in its __env__, for another FORM of the same values (read-only, a strided view, a view
    with a negative stride) - results must not depend on it and the caller's array must never be written to."""
    a = _np_array(kind, toks)
    form = os.environ.get("MC_ARRAY_FORM")
    if not form or form == "pylist" or form in PROVENANCE:
        return a
    if form == "readonly":
        a.flags.writeable = False
        return a
    if form == "strided":
        big = np.empty(2 * len(a), dtype=a.dtype)
        if a.dtype == object:
            big[:] = None
        big[::2] = a
        v = big[::2]
        v.flags.writeable = False
        return v
    if form == "npstring":
        # NumPy's own variable-width string type, dtype "T" = StringDType() WITHOUT the library's na_object: what
        # np.array(values, "T") or astype("T") gives; such a column is a string column like any other
        return np.array(a.tolist(), dtype=np.dtypes.StringDType()) if isinstance(a.dtype, np.dtypes.StringDType) else a
    if form == "swapped":
        # the other byte order (what data read from a big-endian binary format looks like)
        return a.astype(a.dtype.newbyteorder()) if a.dtype.kind in "iufMm" and a.dtype.itemsize > 1 else a
    if form == "reversed":
        v = a[::-1].copy()[::-1]
        v.flags.writeable = False
        return v
    raise ValueError(form)


def _np_array(kind, toks):
    if kind == "f8":
        return np.array([np.nan if t is None else float(t) for t in toks], dtype="float64")
    if kind == "i8":
        return np.array([int(t) for t in toks], dtype="int64")
    if kind == "u1":
        return np.array([int(t) for t in toks], dtype="uint8")
    if kind == "i4":
        return np.array([int(t) for t in toks], dtype="int32")
    if kind in ("i1", "i2", "u4"):
        return np.array([int(t) for t in toks], dtype={"i1": "int8", "i2": "int16", "u4": "uint32"}[kind])
    if kind == "f4":
        return np.array([np.nan if t is None else float(t) for t in toks], dtype="float32")
    if kind == "f16":
        # extended precision (x86 long double): whole numbers beyond 2**53 that float64 cannot tell apart; tokens are decimal text
        return np.array([np.nan if t is None else np.longdouble(t) for t in toks], dtype=np.longdouble)
    if kind == "b1":
        return np.array([bool(t) for t in toks], dtype="bool")
    if kind == "str":
        return np.array(["" if t is None else t for t in toks], dtype=dtypes.string)
    if kind == "U":
        width = max([len(t) for t in toks if t is not None] + [1])
        return np.array(["" if t is None else t for t in toks], dtype=f"U{width}")
    if kind in ("D", "s", "ms", "us", "h", "m", "ns"):
        return np.array(["NaT" if t is None else t for t in toks], dtype=f"datetime64[{kind}]")
    if kind == "td":
        return np.array(["NaT" if t is None else int(t) for t in toks], dtype="timedelta64[D]")
    if kind == "obj":
        a = np.empty(len(toks), dtype=object)
        for i, t in enumerate(toks):
            a[i] = t
        return a
    raise ValueError(kind)


# PROVENANCE forms: the same values, but the object handed to the operation under test is itself the PRODUCT of
# another public operation (a concatenation, a fancy-indexed selection, a deep copy, an Arrow round trip) instead of
# coming straight from the constructor. Used only when the product has the same dtypes and cells as the original
# (whether those operations are right is the business of C09 / C02 / C06 / C13); otherwise the original is used.
PROVENANCE = ("viarbind", "viaslice", "viadeepcopy", "viaarrow")


def _same_frame(a, b):
    if a.colnames != b.colnames or a.nrow != b.nrow:
        return False
    for name in a.colnames:
        x, y = dict.__getitem__(a, name), dict.__getitem__(b, name)
        if x.dtype != y.dtype or col_key(x) != col_key(y):
            return False
    return True


def frame_via(d, form):
    n = d.nrow
    if form not in PROVENANCE:
        raise ValueError(form)
    try:
        if form == "viarbind":
            out = d.head(n // 2).rbind(d.tail(n - n // 2))
        elif form == "viaslice":
            out = d.slice(np.arange(n))
        elif form == "viadeepcopy":
            out = d.deepcopy()
        else:
            out = DataFrame.from_arrow(d.to_arrow())
    except Exception:
        return d   # (e.g. Arrow has no type for a column of mixed objects: pyarrow's ArrowInvalid is a ValueError)
    return out if _same_frame(d, out) else d


def vector_via(v, form):
    n = len(v)
    try:
        if form == "viarbind":
            out = v.head(n // 2).concat(v.tail(n - n // 2))
        elif form == "viaslice":
            out = v[np.arange(n)]
        elif form == "viadeepcopy":
            out = v.copy()
        else:
            return v
    except Exception:
        return v
    return out if (out.dtype == v.dtype and col_key(out) == col_key(v)) else v


def vector(kind, toks):
    v = Vector(np_array(kind, toks))
    form = os.environ.get("MC_ARRAY_FORM")
    return vector_via(v, form) if form in PROVENANCE else v


def py_list(kind, toks):
    """The same column as a plain Python LIST (None for missing), for the kinds whose type the constructor infers
    from such a list to be the kind's own dtype; None for the others."""
    if kind == "str":
        return list(toks)
    if kind == "f8":
        return [None if t is None else float(t) for t in toks]
    if kind == "i8":
        return [int(t) for t in toks]
    if kind == "b1":
        return [bool(t) for t in toks]
    if kind == "D":
        return [None if t is None else datetime.date.fromisoformat(t) for t in toks]
    return None


def frame(cols):
    """cols: list of (name, kind, toks) -> DataFrame built through the public constructor."""
    if os.environ.get("MC_ARRAY_FORM") == "pylist":
        # plain Python lists wherever the inferred dtype is the kind's own (an empty list has no type to infer)
        data = {}
        for name, kind, toks in cols:
            lst = py_list(kind, toks) if any(t is not None for t in toks) else None   # (an all-missing list has no type either)
            data[name] = lst if lst is not None else _np_array(kind, toks)
        d = DataFrame(data)
        for name, kind, toks in cols:
            want = _np_array(kind, toks).dtype
            if dict.__getitem__(d, name).dtype != want:
                raise RuntimeError(f"harness: list form of a {kind} column was given dtype {dict.__getitem__(d, name).dtype}, not {want}")
        return d
    d = DataFrame({name: np_array(kind, toks) for name, kind, toks in cols})
    form = os.environ.get("MC_ARRAY_FORM")
    return frame_via(d, form) if form in PROVENANCE else d


# ---------------------------------------------------------------------------
# reading back

def na_mask(a):
    """Missing positions decided by dtype alone, independently of Vector.is_na."""
    a = np.asarray(a)
    k = a.dtype.kind
    if k == "f":
        return np.isnan(a)
    if k in "mM":
        return np.isnat(a)
    if k == "U" or isinstance(a.dtype, np.dtypes.StringDType):
        return np.array([x == "" for x in a.tolist()], dtype=bool)
    if k == "O":
        return np.array([x is None for x in a], dtype=bool)
    return np.zeros(a.shape, dtype=bool)


def cells(a):
    """Python values with None at the missing positions (DESIGN §3.2)."""
    a = np.asarray(a)
    if a.ndim != 1:
        raise ValueError(f"not one-dimensional: shape {a.shape}")
    k = a.dtype.kind
    if k == "M":
        unit = np.datetime_data(a.dtype)[0]
        if unit in ("ns", "ps", "fs", "as"):
            us = a.astype("datetime64[us]")
            if bool(np.all(np.isnat(a) | (us.astype(a.dtype) == a))):
                return [None if x is None else x for x in us.tolist()]  # whole microseconds: plain datetimes
            # finer than Python's datetime: ISO strings keep every digit (and sort chronologically for years 1000-9999)
            return [None if np.isnat(x) else str(np.datetime_as_string(x)) for x in a]
        return [None if x is None else x for x in a.tolist()]
    if k == "m":
        return [None if x is None else x for x in a.astype("timedelta64[us]").tolist()]
    if k == "f" and a.dtype.itemsize > 8:
        # long double has no Python equivalent: whole numbers as exact ints (the f16 alphabet holds nothing else)
        return [None if x != x else (int(x) if x == np.floor(x) and abs(x) < 2 ** 63 else str(np.format_float_positional(x, unique=True))) for x in a]
    if k == "f":
        return [None if x != x else x for x in a.tolist()]
    if k == "U" or isinstance(a.dtype, np.dtypes.StringDType):
        return [None if x == "" else x for x in a.tolist()]
    if k == "O":
        out = []
        for x in a:
            if isinstance(x, float) and x != x:
                out.append(None)
            elif isinstance(x, np.generic):
                out.append(x.item())
            else:
                out.append(x)
        return out
    return a.tolist()


def tok(x):
    """Hashable, NaN-free, sign-of-zero preserving token of one cell."""
    if isinstance(x, float):
        return "f:" + repr(x)
    if isinstance(x, (dict, list, set)):
        return "r:" + repr(x)
    return x


def col_key(a):
    a = np.asarray(a)
    return (str(a.dtype), tuple(tok(x) for x in cells(a)))


def same_dtype(a, b):
    """The same data type, whatever the byte order (a result in native order of a big-endian operand is the same type)."""
    a, b = np.dtype(a), np.dtype(b)
    if a == b:
        return True
    try:
        return a.newbyteorder("=") == b.newbyteorder("=")
    except Exception:
        return False


def dtype_name(a):
    a = np.asarray(a)
    if isinstance(a.dtype, np.dtypes.StringDType):
        return "string"
    return str(a.dtype)


def frame_key(d):
    """Canonical key of a data frame state (columns in order, dtype, values, grouping)."""
    return (type(d).__name__,
            tuple((name, ) + col_key(dict.__getitem__(d, name)) for name in dict.keys(d)),
            tuple(getattr(d, "_group_colnames", ()) or ()))


def frame_rows(d):
    """List of row tuples (cells) in column order."""
    cols = [cells(dict.__getitem__(d, name)) for name in dict.keys(d)]
    return list(zip(*cols)) if cols else []


def same_value(a, b, tol=False):
    """Cell equality: missing == missing, 1 == 1.0, date == datetime at midnight."""
    if a is b:
        return True
    if a is None or b is None:
        return a is None and b is None
    if isinstance(a, datetime.datetime) != isinstance(b, datetime.datetime):
        if isinstance(a, datetime.date) and isinstance(b, datetime.date):
            da = a if isinstance(a, datetime.datetime) else datetime.datetime(a.year, a.month, a.day)
            db = b if isinstance(b, datetime.datetime) else datetime.datetime(b.year, b.month, b.day)
            return da == db
    if tol and isinstance(a, (int, float)) and isinstance(b, (int, float)) and not isinstance(a, bool) and not isinstance(b, bool):
        if a == b:
            return True
        if (isinstance(a, float) and (a != a or a in (float("inf"), float("-inf")))) or (isinstance(b, float) and (b != b or b in (float("inf"), float("-inf")))):
            return False   # an infinity (or NaN) is only equal to itself: no tolerance reaches it
        try:
            return abs(a - b) <= 1e-12 + 1e-9 * max(abs(a), abs(b))
        except OverflowError:
            return False
    try:
        return bool(a == b)
    except Exception:
        return a is b


def same_cells(xs, ys, tol=False):
    return len(xs) == len(ys) and all(same_value(a, b, tol) for a, b in zip(xs, ys))


def key_eq(a, b):
    """Equality of key values as the properties define it: missing only equals missing."""
    if a is None or b is None:
        return a is None and b is None
    return a == b


# ---------------------------------------------------------------------------
# alphabets (DESIGN §4). Each value is there for a branch in the code.

A = {
    # NaN; ordinary; -inf and 2**53 neighbours collide with unique's nanmin-1 sentinel;
    # +-0.0 equality
    "f8": {
        "quick": [None, "1.0", "2.0", "-inf", "-0.0", "0.0", "inf"],
        "thorough": [None, "1.0", "2.0", "-inf", "-0.0", "0.0", "inf", "9007199254740992.0", "9007199254740994.0", "-1.152921504606847e+18",
                     "0.3", "0.30000000000000004"],
        "key": [None, "1.0", "2.0"],
    },
    # -1 and -2 have equal Python hashes (as have 0 and 2**61-1): keys must be compared, not their hashes
    "i8": {
        "quick": [0, 1, 2, -1, -2],
        "thorough": [0, 1, 2, -1, -2, 9007199254740993, -9223372036854775808, 2305843009213693951],
        "key": [0, 1, 2],
    },
    # single precision: values that are exact in float32
    "f4": {"quick": [None, "1.5", "2.5", "-inf"], "thorough": [None, "1.5", "2.5", "-inf", "0.0", "-0.0"], "key": [None, "1.5", "2.5"]},
    "i4": {"quick": [0, 1, -2147483648, 2147483647], "thorough": [0, 1, -2147483648, 2147483647, -1], "key": [0, 1, -2147483648]},
    "u1": {"quick": [0, 5, 200], "thorough": [0, 5, 200], "key": [0, 5, 200]},
    # narrow signed types: differences of their extremes do not fit the type itself
    "i1": {"quick": [-128, 127, 0, 100], "thorough": [-128, 127, 0, 100, -100], "key": [-128, 127, 0]},
    "i2": {"quick": [-32768, 32767, 0, 7], "thorough": [-32768, 32767, 0, 7, -1], "key": [-32768, 32767, 0]},
    "u4": {"quick": [0, 4294967295, 7], "thorough": [0, 4294967295, 7, 2147483648], "key": [0, 4294967295, 7]},
    "b1": {"quick": [False, True], "thorough": [False, True], "key": [False, True]},
    "str": {
        "quick": [None, "a", "b", "ab", LONG_A, LONG_B],
        "thorough": [None, "a", "b", "ab", LONG_A, LONG_B, "é", "e\u0301", "日本", "B", " ", "￿"],
        "key": [None, "a", "b"],
    },
    "U": {"quick": [None, "a", "b"], "thorough": [None, "a", "b", "ab"], "key": [None, "a", "b"]},
    "D": {
        "quick": [None, "1970-01-01", "2020-02-29", "1969-12-31"],
        "thorough": [None, "1970-01-01", "2020-02-29", "1969-12-31", "0001-01-01", "9999-12-31"],
        "key": [None, "1970-01-01", "2020-02-29"],
    },
    "us": {
        "quick": [None, "1970-01-01T00:00:00", "2020-02-29T23:59:59.999999", "2020-02-29T08:00:00"],
        "thorough": [None, "1970-01-01T00:00:00", "2020-02-29T23:59:59.999999", "1969-12-31T23:59:59", "2020-02-29T08:00:00"],
        "key": [None, "1970-01-01T00:00:00", "2020-02-29T23:59:59.999999"],
    },
    "obj": {"quick": [None, 1, 2, 3], "thorough": [None, 1, 2, 3], "key": [None, 1, 2]},
    # nanosecond datetimes (what from_pandas produces): values closer than a microsecond / than float64 resolution
    "ns": {"quick": [None, "2020-02-29T23:59:59.999999001", "2020-02-29T23:59:59.999999002", "1969-12-31T23:59:59.999999999"],
           "thorough": [None, "2020-02-29T23:59:59.999999001", "2020-02-29T23:59:59.999999002", "1969-12-31T23:59:59.999999999", "2020-02-29T23:59:59.999999003"],
           "key": [None, "2020-02-29T23:59:59.999999001", "2020-02-29T23:59:59.999999002"]},
    # timedelta64 is a subdtype of np.integer (is_integer() is true for it) yet holds NaT
    "td": {"quick": [None, "1", "3", "-2"], "thorough": [None, "1", "3", "-2", "0"], "key": [None, "1", "3"]},
}


def alphabet(kind, tier="quick"):
    return A[kind][tier]


def seqs(alpha, nmin, nmax):
    """All sequences over alpha with nmin..nmax elements, length-ascending."""
    for n in range(nmin, nmax + 1):
        yield from itertools.product(alpha, repeat=n)


def order_key(kind):
    """Total order on non-missing tokens of a kind, as the properties state it."""
    if kind in ("f8", "f4"):
        return float
    if kind in ("i8", "u1", "i4", "i1", "i2", "u4", "obj"):
        return lambda t: t
    if kind == "b1":
        return lambda t: int(t)
    if kind in ("str", "U"):
        return lambda t: [ord(c) for c in t]
    if kind in ("D", "s", "ms", "us"):
        return lambda t: np.datetime64(t).astype("datetime64[us]").astype("int64").item()
    if kind == "ns":
        return lambda t: np.datetime64(t, "ns").astype("int64").item()
    if kind == "td":
        return lambda t: int(t)
    raise ValueError(kind)


def value_order_key(v):
    """Order key on *cell values* (as returned by cells())."""
    if isinstance(v, bool):
        return int(v)
    if isinstance(v, str):
        return [ord(c) for c in v]
    if isinstance(v, datetime.datetime):
        return (v - datetime.datetime(1970, 1, 1)) // datetime.timedelta(microseconds=1)
    if isinstance(v, datetime.date):
        return (v - datetime.date(1970, 1, 1)).days * 86400 * 10**6
    if isinstance(v, datetime.timedelta):
        return v // datetime.timedelta(microseconds=1)
    return v
