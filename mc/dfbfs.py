# -*- coding: utf-8 -*-
"""
E2: explicit-state breadth-first search over DataFrame operation histories.

A state is a real DataFrame together with the reference table (mc/ref/table.py)
stepped in lock-step and the set of column names seen so far. A transition
calls one real public method / in-place edit with one argument from a finite
menu computed from the current state. States are canonicalised (columns in
order with dtype and values, grouping, instance-__dict__ keys, seen-but-absent
names) and hashed so that histories reaching the same state are merged. Live
objects are not copied: a state *is* the history reaching it and is rebuilt by
replaying that history on fresh objects (needed before every in-place edit).

Used by C01 (invariants + model), C06 (receiver/argument unchanged, no shared
memory) and C09 (model on the reshaping sub-alphabet).
"""

import numpy as np

import dataiter as di
from mc import values as V
from mc.ref.table import T, Rejected

MAX_COLS = 6
MAX_ROWS = 6

INITS = [
    [],
    [["a", "i8", []], ["items", "str", []]],
    [["a", "i8", [5]], ["items", "str", ["x"]], ["a b", "f8", [None]]],
    [["a", "f8", ["1.0", None, "1.0"]], ["b", "str", ["x", "y", None]], ["count", "D", ["2020-02-29", None, "1970-01-01"]]],
    [["k", "str", ["b", "a", "b"]], ["v", "b1", [True, False, True]]],
    [["a", "f8", [None, None]], ["s", "str", [None, None]]],
    [["u", "U", ["a", None, "b"]], ["o", "obj", [None, 2, 1]], ["t", "us", ["2020-02-29T23:59:59.999999", None, "1970-01-01T00:00:00"]]],
    [["d", "td", ["3", None, "1"]], ["w", "u1", [200, 0, 5]], ["s", "str", [V.LONG_B, V.LONG_A, None]]],
    # names that hold shell-pattern characters next to names those patterns would match: a name is a name
    [["w[k]", "i8", [1, 2]], ["wk", "str", ["x", None]], ["a*", "f8", ["1.0", None]], ["ab", "b1", [True, False]], ["a?", "i8", [5, 6]]],
]

BUILTIN = None


def builtin_attrs():
    global BUILTIN
    if BUILTIN is None:
        BUILTIN = set(dir(di.DataFrame()))
    return BUILTIN


def build_init(i):
    cols = INITS[i]
    d = V.frame(cols) if cols else di.DataFrame()
    d.nrow, d.ncol, d.colnames
    M = T([[c[0], V.cells(d[c[0]])] for c in cols])
    return d, M, set(M.names)


# ---------------------------------------------------------------------------
# menu

INPLACE = {"setitem", "setattr", "delitem", "delattr", "pop", "popitem", "colnames", "observe", "poke"}


def _same(a, b):
    return (a is None and b is None) or (a is not None and b is not None and a == b)
RESHAPE = {"select", "unselect", "rename", "cbind", "update", "modify", "rbind", "colnames", "slice_cols", "slice_off_cols"}


def jsonable_cells(M):
    import math
    for _, c in M.cols:
        for x in c:
            if not (x is None or isinstance(x, (bool, int, str)) or (isinstance(x, float) and math.isfinite(x))):
                return False
    return True


def plain_cells(M):
    import datetime
    for _, c in M.cols:
        for x in c:
            if not (x is None or isinstance(x, (bool, int, str, float, datetime.date))):
                return False
    return True


def ok_key(c):
    """Values of a column are mutually comparable / hashable keys."""
    return all(x is None or not isinstance(x, (dict, list)) for x in c)


def menu(M, seen):
    names, n, k = M.names, M.nrow, M.ncol
    ops = []
    add = ops.append
    add({"op": "copy"})
    add({"op": "deepcopy"})
    # the same through the standard library's protocols
    add({"op": "std", "how": "copy.copy"})
    add({"op": "std", "how": "copy.deepcopy"})
    # (pickle.dumps of a frame is not offered: the library's Pickle route is write_pickle / read_pickle, C12)
    add({"op": "clear"})   # DataFrame.clear() RETURNS an empty frame (it overrides dict.clear)
    add({"op": "ctor"})
    if n >= 1 and k >= 1:
        add({"op": "rt_lod"})
        if jsonable_cells(M):
            add({"op": "rt_json"})
        if plain_cells(M):
            add({"op": "rt_pandas"})
            add({"op": "rt_arrow"})
    if k >= 1:
        add({"op": "filter", "mask": [True] * n})
        add({"op": "filter", "mask": [False] * n})
        if n >= 2:
            add({"op": "filter", "mask": [i % 2 == 0 for i in range(n)]})
            add({"op": "filter_out", "mask": [i % 2 == 0 for i in range(n)]})
        add({"op": "slice", "rows": []})
        if n >= 1:
            add({"op": "slice", "rows": [0]})
            add({"op": "slice_off", "rows": [0]})
        if n >= 2:
            add({"op": "slice", "rows": list(range(n - 1, -1, -1))})
        if k >= 2:
            add({"op": "slice_cols", "cols": list(range(k - 1, -1, -1))})
        add({"op": "slice_off_cols", "cols": [0]})
        for form in ("neg", "array"):   # (the documentation asks for integer positions: booleans are integers there)
            add({"op": "slice_cols", "cols": [0] if k == 1 else [0, k - 1], "form": form})
            if form != "neg":
                # (slice_off(cols=[-1]) drops nothing on the unchanged tree - negative COLUMN positions are honoured by
                #  slice only; column positions are not the subject of any of the twenty properties, so this is noted
                #  in DESIGN section 6.5 and not explored)
                add({"op": "slice_off_cols", "cols": [k - 1], "form": form})
        for m in sorted({0, 1, n, n + 1}):
            add({"op": "head", "n": m})
        for m in sorted({0, 1, n, n + 1}):
            add({"op": "tail", "n": m})
        for nm in names:
            add({"op": "drop_na", "cols": [nm]})
        if k >= 2:
            add({"op": "drop_na", "cols": list(names)})
        for i in range(min(n, 3)):
            add({"op": "sample", "n": 1, "answer": [i]})
        if n >= 2:
            add({"op": "sample", "n": 2, "answer": [1, 0]})
        add({"op": "unique", "cols": []})
        add({"op": "unique", "cols": [names[0]]})
        for nm in names:
            if ok_key(M.get(nm)):
                add({"op": "sort", "col": nm, "dir": 1})
                add({"op": "sort", "col": nm, "dir": -1})
        if ok_key(M.get(names[0])):
            for kind in ("left_join", "inner_join", "semi_join", "anti_join", "full_join"):
                add({"op": kind})
            if names[0] != "n":
                add({"op": "count", "by": [names[0]]})
            if n >= 1:
                # group-wise modify: a result that fits its group is stored, one that does not fit is rejected
                add({"op": "grouped_modify", "by": names[0], "name": fresh(M, "gm"), "extra": 0})
                add({"op": "grouped_modify", "by": names[0], "name": fresh(M, "gm"), "extra": 1})
                # a plain int for one-row groups, a float otherwise: the column must be able to hold both
                add({"op": "grouped_modify", "by": names[0], "name": fresh(M, "gm"), "extra": 0, "mixed": True})
                # two functions in one call: each new column gets ITS function's results
                add({"op": "grouped_modify", "by": names[0], "name": fresh(M, "gm"), "extra": 0, "name2": fresh(M, "gn")})
        add({"op": "rbind_self"})
        add({"op": "rbind_partner"})
        # the very same object as receiver and argument
        add({"op": "cbind_self"})
        add({"op": "update_self"})
        if n >= 1:
            # EVERY column of the receiver replaced: the row count is still the receiver's (values broadcast, or rejected)
            for form in ("scalar", "len1", "wrong"):
                add({"op": "update_all", "form": form})
        if ok_key(M.get(names[0])):
            add({"op": "left_join_self"})
            add({"op": "anti_join_self"})
        if n >= 1:
            add({"op": "cbind", "rows": n})
            add({"op": "cbind", "rows": 1})
            add({"op": "update", "rows": n})
        add({"op": "cbind", "rows": n + 1})
        mname = fresh(M, "m")
        add({"op": "modify", "name": mname, "form": "vector"})
        add({"op": "modify", "name": names[0], "form": "vector"})
        add({"op": "modify", "name": mname, "form": "callable"})
        add({"op": "modify", "name": mname, "form": "wrong"})
        add({"op": "modify", "name": mname, "form": "wrongcol"})
        add({"op": "modify", "name": mname, "form": "wrongset"})
        if n >= 1:
            add({"op": "modify", "name": mname, "form": "scalar"})
            add({"op": "modify", "name": mname, "form": "scalar0"})
            add({"op": "modify", "name": mname, "form": "len1"})
            add({"op": "modify", "name": mname, "form": "len1col"})
            # the constructor called with the frame's own columns plus values to broadcast (a scalar, a one-element
            # list, a one-element DataFrameColumn taken from elsewhere)
            add({"op": "ctor_bcast", "name": mname, "form": "scalar"})
            add({"op": "ctor_bcast", "name": mname, "form": "len1"})
            add({"op": "ctor_bcast", "name": mname, "form": "len1col"})
            add({"op": "ctor_bcast", "name": mname, "form": "scalar_strsub"})
            add({"op": "ctor_bcast", "name": mname, "form": "scalar0d"})
            add({"op": "modify", "name": mname, "form": "scalar0d"})
            add({"op": "modify", "name": mname, "form": "scalar_strsub"})
        add({"op": "select", "cols": list(reversed(names))})
        add({"op": "select", "cols": [names[0]]})
        # calls with nothing to do: no names, no pairs, no other frames
        add({"op": "select", "cols": []})
        add({"op": "unselect", "cols": []})
        add({"op": "rename", "map": {}})
        add({"op": "noarg", "what": "cbind"})
        add({"op": "noarg", "what": "rbind"})
        add({"op": "noarg", "what": "modify"})
        add({"op": "noarg", "what": "update_empty"})
        add({"op": "unselect", "cols": [names[0]]})
        if k >= 2:
            add({"op": "unselect", "cols": [names[-1]]})  # a single name that may contain another column's name
        add({"op": "rename", "map": {fresh(M, "n1"): names[0]}})
        if k >= 2:
            add({"op": "rename", "map": {names[1]: names[0], names[0]: names[1]}})
    # in-place edits
    for nm in ([names[0]] if k else []) + ["new"]:
        add({"op": "setitem", "name": nm, "form": "vector"})
        if n >= 1 or k == 0:
            add({"op": "setitem", "name": nm, "form": "scalar"})
            add({"op": "setitem", "name": nm, "form": "scalar0"})
            add({"op": "setitem", "name": nm, "form": "scalar0d"})
            add({"op": "setitem", "name": nm, "form": "len1"})
            add({"op": "setitem", "name": nm, "form": "len1col"})
        if k >= 1:
            add({"op": "setitem", "name": nm, "form": "wrong"})
            add({"op": "setitem", "name": nm, "form": "wrongcol"})
            add({"op": "setitem", "name": nm, "form": "wrongset"})
            add({"op": "setitem", "name": nm, "form": "wrongkeys"})
            if n >= 1:
                add({"op": "setitem", "name": nm, "form": "empty"})
    if k >= 1:
        # a two-dimensional DataFrameColumn of the right length must be rejected, not stored
        add({"op": "setitem", "name": "new", "form": "2d"})
        add({"op": "modify", "name": fresh(M, "m"), "form": "2d"})
        # observations: call a method, discard the result, keep using the receiver (hidden caches must not matter)
        add({"op": "observe", "what": "sort", "col": names[0], "dir": 1})
        add({"op": "observe", "what": "sort", "col": names[-1], "dir": -1})
        add({"op": "observe", "what": "unique", "col": names[0]})
        add({"op": "observe", "what": "to_string"})
        add({"op": "observe", "what": "to_string", "narrow": True})
        # in-place cell edit through the column (columns are indexed like NumPy arrays)
        for nm in dict.fromkeys([names[0], names[-1]]):
            c = M.get(nm)
            src = next((j for j in (n - 1, 1) if n >= 2 and not _same(c[0], c[j])), None)
            if src is not None:
                add({"op": "poke", "col": nm, "src": src})
    add({"op": "setattr", "name": "attr1", "form": "vector"})
    for nm in names:
        add({"op": "delitem", "name": nm})
        if nm.isidentifier() and nm not in builtin_attrs():
            add({"op": "delattr", "name": nm})
    if k:
        add({"op": "pop", "name": names[0]})
        add({"op": "popitem"})
        xs = [f"x{i}" for i in range(k)]
        if not set(xs) & set(names):
            add({"op": "colnames", "new": xs})
            if k >= 2:
                add({"op": "colnames", "new": ["x0"]})  # shorter list: only the first column is renamed
        add({"op": "colnames", "new": list(names)})
        if k >= 2:
            add({"op": "colnames", "new": list(reversed(names))})
            add({"op": "colnames", "new": list(reversed(names)), "form": "generator"})
            add({"op": "colnames", "new": list(reversed(names)), "form": "tuple"})
    for nm in sorted(seen - set(names)):
        add({"op": "setitem", "name": nm, "form": "vector"})
    return ops


def adds_column(op, M):
    o = op["op"]
    if o in ("setitem", "setattr") and not M.has(op["name"]):
        return 1
    if o in ("modify", "ctor_bcast") and not M.has(op["name"]):
        return 1
    if o in ("rbind_partner", "left_join", "inner_join", "full_join"):
        return 3  # the partner's three new columns
    if o == "grouped_modify" and op.get("name2"):
        return 2
    if o in ("cbind", "update", "grouped_modify"):
        return 1
    return 0


def adds_rows(op, M):
    o = op["op"]
    if o == "rbind_self":
        return M.nrow
    if o in ("rbind_partner", "full_join"):
        return 2
    return 0


# ---------------------------------------------------------------------------
# operands built from the model (through the public constructor)

def vec_from_cells(cells):
    return di.Vector(list(cells))


def fresh(M, base):
    """A column name not used by the state (menu-introduced names must not collide with existing ones)."""
    name, i = base, 2
    while M.has(name):
        name, i = f"{base}{i}", i + 1
    return name


def partner(M, d=None):
    """Two-row partner sharing the first column's name and dtype: rows 1,0 of the state (or fewer) plus three new
    columns z, pw, pa (int, string, float - listed in an order that is neither alphabetical nor reversed)."""
    name = M.names[0]
    c = M.get(name)
    keys = list(reversed(c[:2]))
    z, w, a = fresh(M, "z"), fresh(M, "pw"), fresh(M, "pa")
    m = len(keys)
    P = T([[name, keys], [z, [100 + i for i in range(m)]], [w, ["w" + str(i) for i in range(m)]], [a, [0.5 + i for i in range(m)]]])
    if d is None:
        return None, P
    key = np.array(np.asarray(dict.__getitem__(d, name))[:2][::-1])  # a fresh array of the same dtype
    p = di.DataFrame({name: key, z: np.array([100 + i for i in range(m)], dtype="int64"),
                      w: V.np_array("str", ["w" + str(i) for i in range(m)]), a: np.array([0.5 + i for i in range(m)], dtype="float64")})
    return p, P


def side_frame(M, rows, with_existing):
    cols = []
    if with_existing and M.ncol:
        cols.append([M.names[0], [300 + i for i in range(rows)]])
    cols.append([fresh(M, "y"), [200 + i for i in range(rows)]])
    P = T(cols)
    d = di.DataFrame({n: np.array(c, dtype="int64") for n, c in cols})
    return d, P


class StrSub(str):
    pass


def value_of(form, n, M):
    if form == "scalar":
        return 5, [5]
    if form == "scalar0":
        return 0, [0]   # a falsy scalar is a value like any other
    if form == "scalar0d":
        return np.asarray(5), [5]   # a zero-dimensional array is a scalar
    if form == "scalar_strsub":
        return StrSub("red"), ["red"]   # an instance of a str subclass (what enum.StrEnum members are) is a scalar
    if form == "len1col":
        return di.DataFrameColumn([5]), [5]
    if form == "len1":
        return [5], [5]
    if form == "vector":
        return di.Vector(np.arange(1000, 1000 + n, dtype="int64")), list(range(1000, 1000 + n))
    if form == "wrong":
        m = n + 2
        return list(range(m)), list(range(m))
    if form == "wrongset":
        # a set / a dict view of the wrong length is a collection of that length, not a scalar to broadcast (seeded C01-r12-1)
        m = n + 2
        return set(range(m)), list(range(m))
    if form == "wrongkeys":
        m = n + 2
        return dict.fromkeys(range(m)).keys(), list(range(m))
    if form == "wrongcol":
        # a column of the wrong length that IS a DataFrameColumn: taken out of another (longer) frame, after arithmetic
        m = n + 2
        other = di.DataFrame(q=np.arange(m, dtype="int64"), r=np.arange(m, dtype="int64"))
        return other.q + other.r, [2 * i for i in range(m)]
    if form == "empty":
        return [], []   # no elements at all: not a scalar, not length one, not nrow (for nrow >= 1)
    raise ValueError(form)


class ChoiceSeam:
    def __init__(self, nrow, answer):
        self.nrow, self.answer, self.hit = nrow, answer, False

    def __call__(self, a, size=None, replace=True, p=None):
        self.hit = True
        return np.array(self.answer, dtype=int)


# ---------------------------------------------------------------------------
# one transition on the real object and on the model

class StepResult:
    __slots__ = ("d", "M", "operands", "rejected", "adopt_order", "relation", "raised")


def apply_real(d, M, op):
    """Apply op to the real frame. Returns (result frame, list of argument frames). In-place ops return d itself."""
    o = op["op"]
    n = M.nrow
    if o == "copy":
        return d.copy(), []
    if o == "deepcopy":
        return d.deepcopy(), []
    if o == "std":
        import copy, pickle
        if op["how"] == "copy.copy":
            return copy.copy(d), []
        if op["how"] == "copy.deepcopy":
            return copy.deepcopy(d), []
        raise ValueError(op["how"])
    if o == "clear":
        return d.clear(), []
    if o == "ctor":
        return di.DataFrame(d), []
    if o == "ctor_bcast":
        val, _ = value_of(op["form"], M.nrow, M)
        cols = {nm: np.array(np.asarray(dict.__getitem__(d, nm))) for nm in dict.keys(d)}
        cols[op["name"]] = val
        return di.DataFrame(**cols) if all(k.isidentifier() for k in cols) else di.DataFrame(cols), []
    if o == "rt_lod":
        return d.to_list_of_dicts().to_data_frame(), []
    if o == "rt_json":
        return di.DataFrame.from_json(d.to_json()), []
    if o == "rt_pandas":
        return di.DataFrame.from_pandas(d.to_pandas()), []
    if o == "rt_arrow":
        return di.DataFrame.from_arrow(d.to_arrow()), []
    if o in ("filter", "filter_out"):
        return getattr(d, o)(di.Vector(np.array(op["mask"], dtype=bool))), []
    if o == "slice":
        return d.slice(rows=op["rows"]), []
    if o == "slice_off":
        return d.slice_off(rows=op["rows"]), []
    if o in ("slice_cols", "slice_off_cols"):
        cols = list(op["cols"])
        k = M.ncol
        if op.get("form") == "neg":
            cols = [i - k for i in cols]                    # the same positions counted from the end
        elif op.get("form") == "array":
            cols = np.array(cols, dtype="int64")
        return (d.slice(cols=cols) if o == "slice_cols" else d.slice_off(cols=cols)), []
    if o in ("head", "tail"):
        return getattr(d, o)(op["n"]), []
    if o == "drop_na":
        return d.drop_na(*op["cols"]), []
    if o == "sample":
        seam = ChoiceSeam(n, op["answer"])
        orig = np.random.choice
        np.random.choice = seam
        try:
            return d.sample(op["n"]), []
        finally:
            np.random.choice = orig
    if o == "unique":
        return d.unique(*op["cols"]), []
    if o == "sort":
        return d.sort(**{op["col"]: op["dir"]}), []
    if o in ("left_join", "inner_join", "semi_join", "anti_join", "full_join"):
        p, _ = partner(M, d)
        return getattr(d, o)(p, M.names[0]), [p]
    if o == "count":
        return d.count(*op["by"]), []
    if o == "grouped_modify":
        extra = op["extra"]
        g = d.copy().group_by(op["by"])
        if op.get("mixed"):
            return g.modify(**{op["name"]: (lambda x: x.nrow / 4 if x.nrow > 1 else 0)}), []
        if op.get("name2"):
            return g.modify(**{op["name"]: (lambda x: list(range(x.nrow))), op["name2"]: (lambda x: x.nrow + 10)}), []
        return g.modify(**{op["name"]: (lambda x: list(range(x.nrow + extra)))}), []
    if o == "rbind_self":
        return d.rbind(d), []
    if o == "cbind_self":
        return d.cbind(d), []
    if o == "update_self":
        return d.update(d), []
    if o == "update_all":
        if op["form"] == "scalar":
            return d.update({nm: 5 for nm in M.names}), []
        m = 1 if op["form"] == "len1" else n + 2
        other = di.DataFrame({nm: np.arange(5, 5 + m, dtype="int64") for nm in M.names})
        return d.update(other), [other]
    if o == "left_join_self":
        return d.left_join(d, M.names[0]), []
    if o == "anti_join_self":
        return d.anti_join(d, M.names[0]), []
    if o == "rbind_partner":
        p, _ = partner(M, d)
        return d.rbind(p), [p]
    if o in ("cbind", "update"):
        p, _ = side_frame(M, op["rows"], o == "update")
        return getattr(d, o)(p), [p]
    if o == "modify" and op["form"] == "2d":
        return d.modify(**{op["name"]: dict.__getitem__(d, M.names[0]).reshape(-1, 1)}), []
    if o == "modify":
        if op["form"] == "callable":
            first = M.names[0]
            return d.modify(**{op["name"]: (lambda x: x[first])}), []
        val, _ = value_of(op["form"], n, M)
        return d.modify(**{op["name"]: val}), []
    if o == "noarg":
        w = op["what"]
        if w == "update_empty":
            e = di.DataFrame()
            return d.update(e), [e]
        return getattr(d, w)(), []
    if o == "select":
        return d.select(*op["cols"]), []
    if o == "unselect":
        return d.unselect(*op["cols"]), []
    if o == "rename":
        return d.rename(**op["map"]), []
    # in-place
    if o == "setitem" and op["form"] == "2d":
        d[op["name"]] = dict.__getitem__(d, M.names[0]).reshape(-1, 1)
        return d, []
    if o == "setitem":
        val, _ = value_of(op["form"], n if M.ncol else 2, M)
        d[op["name"]] = val
        return d, []
    if o == "observe":
        if op["what"] == "sort":
            d.sort(**{op["col"]: op["dir"]})
        elif op["what"] == "unique":
            d.unique(op["col"])
        elif op.get("narrow"):
            d.to_string(truncate_width=3, max_rows=2)   # every cell wider than three characters is CUT in the text, not in the frame
        else:
            d.to_string()
        return d, []
    if o == "poke":
        col = dict.__getitem__(d, op["col"])
        col[0] = col[op["src"]]
        return d, []
    if o == "setattr":
        val, _ = value_of(op["form"], n if M.ncol else 2, M)
        setattr(d, op["name"], val)
        return d, []
    if o == "delitem":
        del d[op["name"]]
        return d, []
    if o == "delattr":
        delattr(d, op["name"])
        return d, []
    if o == "pop":
        d.pop(op["name"])
        return d, []
    if o == "popitem":
        d.popitem()
        return d, []

    if o == "colnames":
        form = op.get("form", "list")
        d.colnames = (x for x in op["new"]) if form == "generator" else tuple(op["new"]) if form == "tuple" else list(op["new"])
        return d, []
    raise ValueError(o)


def apply_model(M, op):
    """Returns (M2 | list of candidate M2, flags). Raises Rejected."""
    o = op["op"]
    n = M.nrow
    flags = {}
    if o in ("copy", "deepcopy", "std", "ctor", "rt_lod", "rt_json", "rt_pandas", "rt_arrow"):
        return M.copy(), flags
    if o == "clear":
        return T([]), flags
    if o == "filter":
        return M.filter(op["mask"]), flags
    if o == "filter_out":
        return M.filter_out(op["mask"]), flags
    if o == "slice":
        return M.slice(op["rows"]), flags
    if o == "slice_off":
        return M.slice_off(op["rows"]), flags
    if o == "slice_cols":
        return T([M.cols[i] for i in op["cols"]]), flags
    if o == "slice_off_cols":
        return T([c for i, c in enumerate(M.cols) if i not in op["cols"]]), flags
    if o == "head":
        return M.head(op["n"]), flags
    if o == "tail":
        return M.tail(op["n"]), flags
    if o == "drop_na":
        return M.drop_na(op["cols"]), flags
    if o == "sample":
        return M.slice(sorted(op["answer"])), flags
    if o == "unique":
        return M.unique(op["cols"] or None), flags
    if o == "sort":
        return M.sort_candidates(op["col"], op["dir"]), {"candidates": True}
    if o in ("left_join", "inner_join", "semi_join", "anti_join"):
        _, P = partner(M)
        return M.join(o, P, [(M.names[0], M.names[0])]), flags
    if o == "full_join":
        return None, {"adopt": True}
    if o == "count":
        return M.count(op["by"]), flags
    if o == "grouped_modify":
        if op["extra"]:
            raise Rejected("a group-wise result that does not fit its group")
        # every row gets what the function returned for its group (rows with equal keys, missing == missing, in frame order)
        from mc.ref.table import key_eq
        key = M.get(op["by"])
        vals = []
        for i in range(M.nrow):
            members = [j for j in range(M.nrow) if key_eq(key[j], key[i])]
            vals.append((len(members) / 4 if len(members) > 1 else 0) if op.get("mixed") else members.index(i))
        M2 = M.modify(op["name"], vals)
        if op.get("name2"):
            sizes = [sum(1 for j in range(M.nrow) if key_eq(key[j], key[i])) + 10 for i in range(M.nrow)]
            M2 = M2.modify(op["name2"], sizes)
        return M2, flags
    if o == "rbind_self":
        return M.rbind([M]), flags
    if o == "cbind_self":
        return M.cbind(M), flags
    if o == "update_self":
        return M.update(M), {"unordered": True}
    if o == "update_all":
        m = 1 if op["form"] in ("scalar", "len1") else n + 2
        return M.update(T([[nm, list(range(5, 5 + m))] for nm in M.names])), {"unordered": True}
    if o == "left_join_self":
        return M.join("left_join", M, [(M.names[0], M.names[0])]), flags
    if o == "anti_join_self":
        return M.join("anti_join", M, [(M.names[0], M.names[0])]), flags
    if o == "rbind_partner":
        _, P = partner(M)
        return M.rbind([P]), flags
    if o == "cbind":
        _, P = side_frame(M, op["rows"], False)
        return M.cbind(P), flags
    if o == "update":
        _, P = side_frame(M, op["rows"], True)
        return M.update(P), {"unordered": True}
    if o in ("modify", "setitem") and op.get("form") == "2d":
        raise Rejected("a column must be one-dimensional")
    if o == "observe":
        return M.copy(), flags
    if o == "poke":
        M2 = M.copy()
        c = M2.get(op["col"])
        c[0] = c[op["src"]]
        return M2, flags
    if o == "modify":
        if op["form"] == "callable":
            return M.modify(op["name"], M.get(M.names[0])), flags
        _, mv = value_of(op["form"], n, M)
        return M.modify(op["name"], mv), flags
    if o == "ctor_bcast":
        _, mv = value_of(op["form"], n, M)
        return M.modify(op["name"], mv), flags
    if o == "noarg":
        return M.copy(), flags
    if o == "select":
        return M.select(op["cols"]), flags
    if o == "unselect":
        return M.unselect(op["cols"]), flags
    if o == "rename":
        return M.rename(op["map"]), flags
    M2 = M.copy()
    if o in ("setitem", "setattr"):
        _, mv = value_of(op["form"], n if M.ncol else 2, M)
        M2.setitem(op["name"], mv)
        return M2, flags
    if o in ("delitem", "delattr", "pop"):
        M2.delitem(op["name"])
        return M2, flags
    if o == "popitem":
        M2.popitem()
        return M2, flags

    if o == "colnames":
        M2.set_colnames(op["new"])
        # a full-length assignment renames positionally, so afterwards colnames is the assigned list;
        # where the columns of a shorter list end up is not pinned
        return M2, ({} if len(op["new"]) == M.ncol else {"unordered": True})
    raise ValueError(o)


# ---------------------------------------------------------------------------
# oracles

def hidden_key(d):
    cols = tuple(tuple(sorted(getattr(c, "__dict__", {}) or ())) for c in dict.values(d))
    return (tuple(sorted(k for k in d.__dict__.keys())), cols)


def state_key(d, seen):
    present = set(dict.keys(d))
    return (V.frame_key(d), hidden_key(d), tuple(sorted(seen - present)))


def snapshot(d):
    # what "the receiver is unchanged" means: columns, order, dtypes, values, grouping, instance attributes of the
    # frame; the .str/.dt/.re proxies that vectors cache on themselves are not part of it (but are part of state_key)
    return (V.frame_key(d), tuple(sorted(k for k in d.__dict__.keys())))


def invariants(d, M, seen):
    """DESIGN C01 (i) and (iii). Returns a message or None."""
    if not isinstance(d, di.DataFrame):
        return f"result is a {type(d).__name__}"
    names = list(dict.keys(d))
    if len(set(names)) != len(names) or not all(isinstance(x, str) for x in names):
        return f"column names not unique strings: {names}"
    lens = []
    for nm in names:
        col = dict.__getitem__(d, nm)
        if not isinstance(col, di.DataFrameColumn):
            return f"column {nm!r} is a {type(col).__name__}, not a DataFrameColumn"
        if col.ndim != 1:
            return f"column {nm!r} has {col.ndim} dimensions"
        lens.append(len(col))
    if len(set(lens)) > 1:
        return f"columns have different lengths {dict(zip(names, lens))}"
    try:
        nrow, ncol, colnames = d.nrow, d.ncol, d.colnames
    except Exception as e:
        return f"nrow/ncol/colnames raised {type(e).__name__}: {e}"
    if ncol != len(names) or colnames != names or list(d) != names:
        return f"ncol {ncol} / colnames {colnames} / iteration {list(d)} disagree with keys {names}"
    try:
        columns = list(d.columns)
    except Exception as e:
        return f"columns raised {type(e).__name__}: {e}"
    if len(columns) != len(names) or any(c is not dict.__getitem__(d, nm) for c, nm in zip(columns, names)):
        return f"columns is not the list of the stored columns in order"
    if names and nrow != lens[0]:
        return f"nrow {nrow} but columns have {lens[0]} elements"
    if not names and nrow != 0:
        return f"nrow {nrow} for a frame without columns"
    builtin = builtin_attrs()
    for nm in names:
        try:
            if d[nm] is not dict.__getitem__(d, nm):
                return f"d[{nm!r}] is not the stored column"
        except Exception as e:
            return f"d[{nm!r}] raised {type(e).__name__}"
        if nm.isidentifier() and nm not in builtin:
            if not hasattr(d, nm):
                return f"column {nm!r} present but hasattr is false"
            if getattr(d, nm) is not dict.__getitem__(d, nm):
                return f"attribute {nm!r} is not the column stored under that key"
    for nm in seen - set(names):
        if nm in d:
            return f"removed column {nm!r} still found by 'in'"
        if nm not in builtin and hasattr(d, nm):
            return f"removed column {nm!r} still reachable as an attribute (hasattr true: {getattr(d, nm)!r})"
        try:
            d[nm]
            return f"removed column {nm!r} still reachable by key"
        except KeyError:
            pass
        except Exception as e:
            return f"d[{nm!r}] raised {type(e).__name__} instead of KeyError"
    return None


def model_diff(d, M2, unordered):
    names = list(dict.keys(d))
    if (sorted(names) != sorted(M2.names)) if unordered else (names != M2.names):
        return f"columns {names}, model {M2.names}{' (any order)' if unordered else ''}"
    mm = M2.as_map()
    for nm in names:
        got = V.cells(dict.__getitem__(d, nm))
        if not V.same_cells(got, mm[nm]):
            return f"column {nm!r} = {got}, model {mm[nm]}"
    return None


def model_from(d):
    return T([[nm, V.cells(dict.__getitem__(d, nm))] for nm in dict.keys(d)])


def shares(out, operands):
    for on, oc in dict.items(out):
        for src in operands:
            for sn, sc in dict.items(src):
                try:
                    if np.shares_memory(np.asarray(oc), np.asarray(sc)):
                        return f"result column {on!r} shares memory with operand column {sn!r}"
                except Exception:
                    pass
    return None


def step(d, M, seen, op, rec, clauses, case_of):
    """
    Apply one transition with all oracles. Returns (d2, M2, seen2, dirty) where dirty means the
    receiver object can no longer be trusted to represent the pre-state; returns None for d2 when
    the transition leads nowhere (rejected, raised).
    """
    o = op["op"]
    inplace = o in INPLACE
    rec.trans()
    try:
        m2, flags = apply_model(M, op)
        rejected = False
    except Rejected:
        m2, flags, rejected = None, {}, True
    before = snapshot(d)
    try:
        out, operands = apply_real(d, M, op)
        raised = None
    except Exception as e:
        out, operands, raised = None, [], e
    opbefore = None
    if rejected:
        if raised is None:
            if "C01" in clauses:
                rec.violation(o, "not-rejected", case_of(op), f"a length mismatch was stored instead of rejected: columns {[(k, len(v)) for k, v in dict.items(out)]}")
            return None, None, None, inplace
        if snapshot(d) != before and ("C01" in clauses or "C06" in clauses):
            rec.violation(o, "changed-on-reject", case_of(op), "the frame changed although the operation was rejected")
            return None, None, None, True
        rec.outcome((o, "rejected"))
        return None, None, None, False
    if raised is not None and op.get("form") == "scalar0d":
        # a zero-dimensional array may be refused (the unchanged tree does) or broadcast like a scalar - but never
        # stored as it is (the invariants below see to that when the call succeeds)
        if snapshot(d) != before and ("C01" in clauses or "C06" in clauses):
            rec.violation(o, "changed-on-reject", case_of(op), "the frame changed although the operation was rejected")
            return None, None, None, True
        rec.outcome((o, "rejected"))
        return None, None, None, False
    if raised is not None:
        if "C01" in clauses:
            rec.violation(o, "raised", case_of(op), f"{type(raised).__name__}: {raised}")
        return None, None, None, inplace or snapshot(d) != before
    dirty = False
    if o == "observe" and V.frame_key(d) != before[0]:
        if "C06" in clauses:
            rec.violation(o, "receiver-changed", case_of(op), f"receiver changed by {op['what']}(), a method documented as returning a new object")
        return None, None, None, True
    if not inplace:
        if snapshot(d) != before:
            dirty = True
            if "C06" in clauses:
                rec.violation(o, "receiver-changed", case_of(op), f"receiver changed by a method documented as returning a new object")
        # copy() is documented as shallow, and DataFrame(frame) is what it calls
        if "C06" in clauses and isinstance(out, di.DataFrame) and o not in ("copy", "ctor") and not (o == "std" and op["how"] == "copy.copy"):
            msg = shares(out, [d] + operands)
            if msg:
                rec.violation(o, "shares-memory", case_of(op), msg)
    seen2 = set(seen) | set(dict.keys(out)) if isinstance(out, dict) else set(seen)
    if not inplace and out is not d:
        # names removed by a functional op were never removed from *this* object: a new object starts its own history
        # (a method that hands back the receiver itself does not start a new history)
        seen2 = set(dict.keys(out)) if isinstance(out, dict) else set()
    msg = invariants(out, m2, seen2)
    if msg:
        if "C01" in clauses:
            rec.violation(o, "invariant", case_of(op), msg)
        return None, None, None, dirty or inplace
    # model
    if flags.get("adopt"):
        M2 = model_from(out)
    elif flags.get("candidates"):
        M2 = None
        for cand in m2:
            if model_diff(out, cand, False) is None:
                M2 = cand
                break
        if M2 is None:
            if "C01" in clauses or "C09" in clauses or "C03" in clauses:
                rec.violation(o, "model", case_of(op), f"sorted frame {V.frame_rows(out)} is none of the allowed orders {[c.rows() for c in m2]}")
            return None, None, None, dirty
    else:
        msg = model_diff(out, m2, flags.get("unordered", False))
        if msg:
            if "C01" in clauses or "C09" in clauses:
                rec.violation(o, "model", case_of(op), msg)
            return None, None, None, dirty or inplace
        M2 = m2
        if flags.get("unordered"):
            mm = M2.as_map()
            M2 = T([[nm, mm[nm]] for nm in dict.keys(out)])
    rec.outcome((o, tuple(M2.names), M2.nrow))
    return out, M2, seen2, dirty


def replay(init, history):
    """Rebuild a state by replaying its history without oracles."""
    d, M, seen = build_init(init)
    for op in history:
        m2, flags = apply_model(M, op)
        out, _ = apply_real(d, M, op)
        inplace = op["op"] in INPLACE
        if flags.get("adopt"):
            M = model_from(out)
        elif flags.get("candidates"):
            M = next((c for c in m2 if model_diff(out, c, False) is None), m2[0])
        else:
            M = m2
            if flags.get("unordered"):
                mm = M.as_map()
                M = T([[nm, mm[nm]] for nm in dict.keys(out)])
        seen = (set(seen) | set(dict.keys(out))) if inplace else set(dict.keys(out))
        d = out
        # a user looks at the frame between operations: reading these properties is always possible and must be harmless
        d.nrow, d.ncol, d.colnames
    return d, M, seen


def explore(init, prefix, depth, rec, clauses, op_filter=None):
    """BFS from the state reached by `prefix` (already checked by the caller's shard of depth 1), `depth` more levels."""
    def case_of_factory(history):
        return lambda op: {"init": init, "history": history + [op]}

    if prefix:
        # The prefix must itself be a clean history; if it is not, the shard owning its last step reports it.
        from mc.harness import Rec
        probe = Rec("probe")
        if check_history({"init": init, "history": list(prefix)}, probe, {"C01", "C06", "C09"}) is None or probe.vcount:
            return
    d0, M0, seen0 = replay(init, prefix)
    visited = {state_key(d0, seen0)}
    rec.state(state_key(d0, seen0))
    frontier = [list(prefix)]
    for level in range(depth):
        nxt = []
        for history in frontier:
            d, M, seen = replay(init, history)
            case_of = case_of_factory(history)
            for op in menu(M, seen):
                if op_filter and not op_filter(level, op):
                    continue
                if M.ncol + adds_column(op, M) > MAX_COLS or M.nrow + adds_rows(op, M) > MAX_ROWS:
                    rec.pruned += 1
                    continue
                rec.case((state_key(d, seen), repr(op)), True)
                if op["op"] in INPLACE:
                    d, M, seen = replay(init, history)
                d2, M2, seen2, dirty = step(d, M, seen, op, rec, clauses, case_of)
                if dirty or op["op"] in INPLACE:
                    d, M, seen = replay(init, history)
                if d2 is None:
                    continue
                key = state_key(d2, seen2)
                rec.state(key)
                if key not in visited:
                    visited.add(key)
                    nxt.append(history + [op])
        frontier = nxt
    return len(visited)


def check_history(case, rec, clauses):
    """Replay one history with all oracles at every step (used by --replay and for depth-1 shards)."""
    init, history = case["init"], case["history"]
    d, M, seen = build_init(init)
    rec.state(state_key(d, seen))
    msg = invariants(d, M, seen)
    if msg and "C01" in clauses:
        rec.violation("init", "invariant", {"init": init, "history": []}, msg)
        return None
    for i, op in enumerate(history):
        hist = history[:i]
        rec.case((state_key(d, seen), repr(op)), True)
        d2, M2, seen2, dirty = step(d, M, seen, op, rec, clauses, lambda o, hist=hist: {"init": init, "history": hist + [o]})
        if d2 is None:
            return None
        d, M, seen = d2, M2, seen2
        rec.state(state_key(d, seen))
    return d, M, seen
