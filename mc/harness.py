# -*- coding: utf-8 -*-
"""
Runner shared by all checks: shard scheduling on a fork pool, per-shard
recorders, merging, known-finding matching, replay files and evidence.

A check module (checks/cXX_*.py) provides

    ID, TITLE, RULE, ASSUMPTIONS, BOUND[tier]          (metadata)
    shards(tier)      -> list of JSON-able shard descriptors, size-ascending
    run_shard(shard, rec)                              (explores one shard)
    check_case(case, rec)                              (executes ONE case: used by
                                                        run_shard and by --replay)
    classify(violation dict) -> str | None             (optional, narrow classifier)

Everything is executed on the real implementation; `rec` only counts.
"""

import array
import hashlib
import importlib
import json
import multiprocessing
import os
import random
import subprocess
import sys
import tempfile
import time
import traceback

VERIF = os.path.dirname(os.path.dirname(os.path.abspath(__file__)))
REPO = os.path.abspath(os.environ.get("VERIF_REPO", "/repo"))
OUT = os.environ.get("VERIF_OUT", VERIF)  # where evidence/ and replays/ are written
MASK = (1 << 64) - 1
MAX_KEPT_PER_SIG = 3

CHECKS = {
    "C01": "checks.c01_rectangular",
    "C02": "checks.c02_subset",
    "C03": "checks.c03_sort",
    "C04": "checks.c04_group",
    "C05": "checks.c05_join",
    "C06": "checks.c06_alias",
    "C07": "checks.c07_helpers",
    "C08": "checks.c08_numba",
    "C09": "checks.c09_reshape",
    "C10": "checks.c10_vector_na",
    "C11": "checks.c11_vector_order",
    "C12": "checks.c12_file_roundtrip",
    "C13": "checks.c13_convert",
    "C14": "checks.c14_read_restrict",
    "C15": "checks.c15_lod_ops",
    "C16": "checks.c16_lod_join",
    "C17": "checks.c17_lod_obsolete",
    "C18": "checks.c18_geojson",
    "C19": "checks.c19_dt_regex",
    "C20": "checks.c20_render",
}


class InfraError(Exception):
    pass


def h64(key):
    """Deterministic 64-bit digest of a hashable key (PYTHONHASHSEED is pinned)."""
    return hash(key) & MASK


def jsonable(x):
    """Best-effort conversion of a value for replay/evidence files."""
    import datetime
    if x is None or isinstance(x, (bool, int, str)):
        return x
    if isinstance(x, float):
        return x if x == x and x not in (float("inf"), float("-inf")) else repr(x)
    if isinstance(x, (list, tuple)):
        return [jsonable(y) for y in x]
    if isinstance(x, dict):
        return {str(k): jsonable(v) for k, v in x.items()}
    if isinstance(x, (datetime.date, datetime.datetime, datetime.timedelta)):
        return str(x)
    if isinstance(x, (set, frozenset)):
        return sorted((jsonable(y) for y in x), key=repr)
    try:
        import numpy as np
        if isinstance(x, np.generic):
            return jsonable(x.item()) if not isinstance(x, (np.datetime64, np.timedelta64)) else str(x)
        if isinstance(x, np.ndarray):
            return {"dtype": str(x.dtype), "values": [jsonable(y) for y in x.tolist()]}
    except Exception:
        pass
    return repr(x)


def shrink(x, maxlen=16):
    """Samples are for a reader of the evidence file: long lists are abbreviated (replay files keep everything)."""
    if isinstance(x, list):
        if len(x) > maxlen:
            return [shrink(y, maxlen) for y in x[:maxlen // 2]] + [f"... {len(x) - maxlen // 2} more elements ..."]
        return [shrink(y, maxlen) for y in x]
    if isinstance(x, dict):
        return {k: shrink(v, maxlen) for k, v in x.items()}
    if isinstance(x, str) and len(x) > 300:
        return x[:150] + f"... ({len(x)} characters)"
    return x


class Rec:
    """Per-shard recorder. Counts are measured, never assumed."""

    def __init__(self, check_id, mod=None, collect=True):
        self.check_id = check_id
        self.mod = mod
        self.collect = collect
        self.evals = 0
        self.transitions = 0
        self.pruned = 0
        self.states = array.array("Q")
        self.nontrivial = array.array("Q")
        self.outcomes = array.array("Q")
        self.violations = []
        self.vcount = {}
        self.samples = []
        self.extra = {}
        self.shard = None
        self._state_buf = set()

    # -- counting -----------------------------------------------------
    def state(self, key):
        h = hash(key) & MASK
        if h not in self._state_buf:
            self._state_buf.add(h)
            if len(self._state_buf) > 200000:
                self.states.extend(self._state_buf)
                self._state_buf = set()

    def case(self, key, nontrivial=True, n=1):
        """One execution compared with the reference (an evaluation)."""
        self.evals += n
        if nontrivial:
            self.nontrivial.append(hash(key) & MASK)

    def trans(self, n=1):
        self.transitions += n

    def outcome(self, key):
        self.outcomes.append(hash(key) & MASK)

    def count(self, name, n=1):
        self.extra[name] = self.extra.get(name, 0) + n

    def sample(self, case, every=1):
        if len(self.samples) < 2:
            self.samples.append(shrink(jsonable(case)))

    # -- violations ---------------------------------------------------
    def violation(self, op, clause, case, detail="", cls=None):
        v = {
            "property": self.check_id,
            "op": op,
            "clause": clause,
            "case": jsonable(case),
            "detail": str(detail)[:2000],
            "shard": self.shard,
        }
        if isinstance(self.shard, dict) and self.shard.get("__env__") and isinstance(v["case"], dict):
            v["case"]["__env__"] = self.shard["__env__"]  # the case is replayed under the same environment
        if cls is None and self.mod is not None and hasattr(self.mod, "classify"):
            try:
                cls = self.mod.classify(v)
            except Exception:
                cls = None
        if cls is None:
            # never matches a known finding (see run_check): a violation nobody classified is always reported
            cls = "unclassified"
        v["signature"] = f"{op}|{clause}|{cls}"
        n = self.vcount.get(v["signature"], 0)
        self.vcount[v["signature"]] = n + 1
        if n < MAX_KEPT_PER_SIG:
            self.violations.append(v)
        return v

    def finish(self):
        self.states.extend(self._state_buf)
        self._state_buf = set()

    def payload(self):
        self.finish()
        return {
            "evals": self.evals,
            "transitions": self.transitions,
            "pruned": self.pruned,
            "states": self.states.tobytes(),
            "nontrivial": self.nontrivial.tobytes(),
            "outcomes": self.outcomes.tobytes(),
            "violations": self.violations,
            "vcount": self.vcount,
            "samples": self.samples,
            "extra": self.extra,
        }


class shard_env:
    """Environment a shard (or a replayed case) asks for: {"__env__": {"TZ": ..., "COLUMNS": ...}}.
    The hermetic default is TZ=UTC; a shard may ask for another zone so that code which goes through
    local time (time.localtime, datetime.fromtimestamp) is seen. Restored afterwards."""

    def __init__(self, spec):
        self.env = (spec or {}).get("__env__") if isinstance(spec, dict) else None
        self.saved = {}

    def _apply(self, env):
        for k, v in env.items():
            if v is None:
                os.environ.pop(k, None)
            else:
                os.environ[k] = v
        if "TZ" in env:
            time.tzset()

    def __enter__(self):
        if self.env:
            self.saved = {k: os.environ.get(k) for k in self.env}
            self._apply(self.env)
        return self

    def __exit__(self, *exc):
        if self.env:
            self._apply(self.saved)
        return False


def with_array_forms(shards, tier, pick):
    """Copies of the picked shards that hand the library another FORM of the same arrays (mc/values.np_array):
    quick - a read-only strided view, and plain Python lists (for the kinds whose dtype the constructor infers from a
    list), and frames / vectors that are the product of a concatenation; thorough - also a plain read-only array, a
    negative-stride view, and the products of a fancy-indexed selection, a deep copy and an Arrow round trip."""
    forms = (["strided", "pylist", "npstring", "viarbind", "swapped"] if tier == "quick" else
             ["strided", "pylist", "npstring", "readonly", "reversed", "viarbind", "viaslice", "viadeepcopy", "viaarrow", "swapped"])
    extra = []
    for sh in shards:
        if "__env__" not in sh and pick(sh):
            for form in forms:
                if form == "npstring" and "str" not in json.dumps(sh):
                    continue   # (only shards that hold string columns)
                if form == "swapped" and sh.get("kind") not in ("D", "us", "ns", "td", "i8", "f8", "i4", "f4"):
                    continue   # (the other byte order: only kinds with more than one byte per element)
                extra.append(dict(sh, __env__={"MC_ARRAY_FORM": form}))
    return shards + extra


def with_hash_seeds(shards, tier, pick):
    """Copies of the picked shards run in fresh interpreters under other string-hash seeds: nothing may depend on
    the iteration order of a set of strings."""
    seeds = ["1", "2"] if tier == "quick" else ["1", "2", "3", "4"]
    extra = []
    for sh in shards:
        if "__env__" not in sh and pick(sh):
            for seed in seeds:
                extra.append(dict(sh, __env__={"PYTHONHASHSEED": seed}))
    return shards + extra


def load_check(check_id):
    if VERIF not in sys.path:
        sys.path.insert(0, VERIF)
    return importlib.import_module(CHECKS[check_id])


def other_hash_seed(spec):
    """The string-hash seed a shard / case asks for, when it is not the one this interpreter runs with."""
    env = (spec or {}).get("__env__") if isinstance(spec, dict) else None
    seed = (env or {}).get("PYTHONHASHSEED")
    if seed is not None and str(seed) != os.environ.get("PYTHONHASHSEED"):
        return str(seed)
    if (env or {}).get("MC_FRESH") == "1" and os.environ.get("MC_FRESH_INSIDE") != "1":
        # a shard that wants to be the FIRST thing the library does in an interpreter (first-use effects): same
        # mechanism, same hash seed
        return os.environ.get("PYTHONHASHSEED", "0")
    return None


def _work_in_subprocess(arg, seed):
    """String hashing cannot be re-seeded in a running interpreter: such a shard runs in a fresh one."""
    import pickle
    check_id, index, shard = arg
    d = tempfile.mkdtemp(prefix="shard-seed-", dir=os.environ.get("MC_SCRATCH"))
    fin, fout = os.path.join(d, "in.pickle"), os.path.join(d, "out.pickle")
    with open(fin, "wb") as f:
        pickle.dump(arg, f)
    env = dict(os.environ, PYTHONHASHSEED=seed, MC_FRESH_INSIDE="1")
    p = subprocess.run([sys.executable, "-c", "import sys; from mc import harness; harness._subprocess_main(sys.argv[1], sys.argv[2])", fin, fout],
                       env=env, cwd=VERIF, capture_output=True, text=True)
    try:
        # (the result file is what counts: a native library may still abort while the interpreter shuts down)
        if not os.path.exists(fout):
            return {"index": index, "error": f"shard subprocess (PYTHONHASHSEED={seed}) failed:\n{p.stderr[-3000:]}", "shard": shard}
        with open(fout, "rb") as f:
            out = pickle.load(f)
        # state / case digests are Python hashes, i.e. seed-dependent: a shard run under another seed is not allowed
        # to inflate the exact distinct counts (its transitions and evaluations are counted, its digests dropped)
        for k in ("states", "nontrivial", "outcomes"):
            if k in out:
                out[k] = b""
        return out
    finally:
        import shutil
        shutil.rmtree(d, ignore_errors=True)


def _subprocess_main(fin, fout):
    import pickle
    with open(fin, "rb") as f:
        arg = pickle.load(f)
    out = _work(arg)
    with open(fout, "wb") as f:
        pickle.dump(out, f)


def _work(arg):
    check_id, index, shard = arg
    seed = other_hash_seed(shard)
    if seed is not None:
        return _work_in_subprocess(arg, seed)
    t0 = time.time()
    rec = None
    try:
        mod = load_check(check_id)
        rec = Rec(check_id, mod)
        rec.shard = shard
        with shard_env(shard):
            mod.run_shard(shard, rec)
        out = rec.payload()
        out["index"] = index
        out["wall"] = time.time() - t0
        return out
    except Exception as e:
        if rec is not None and raised_inside_library(e):
            # An exception that comes out of the library under test at a place where the check did not expect one
            # (no such exception occurs on the unchanged tree, or this line would be reached there): the library
            # raised where it used to answer. Reported as a violation whose replay re-runs the shard - never as a
            # silent infrastructure error.
            rec.violation("shard", "uncaught-library-exception", {"__shard__": shard},
                          f"{type(e).__name__}: {e}; " + " <- ".join(traceback.format_exc().strip().splitlines()[-7:])[:1500])
            out = rec.payload()
            out["index"] = index
            out["wall"] = time.time() - t0
            return out
        return {"index": index, "error": traceback.format_exc(), "shard": shard}
    except BaseException:
        return {"index": index, "error": traceback.format_exc(), "shard": shard}


def raised_inside_library(e):
    """True if the innermost frame of the exception's traceback is code of the library under test."""
    tb = e.__traceback__
    last = None
    while tb is not None:
        last = tb
        tb = tb.tb_next
    if last is None:
        return False
    path = os.path.abspath(last.tb_frame.f_code.co_filename)
    return path.startswith(os.path.join(REPO, "dataiter") + os.sep)


def load_known():
    path = os.path.join(VERIF, "known_findings.json")
    if not os.path.exists(path):
        return {"open": [], "fixed": []}
    with open(path) as f:
        return json.load(f)


def tree_identity():
    try:
        head = subprocess.run(["git", "-C", REPO, "rev-parse", "HEAD"], capture_output=True, text=True).stdout.strip()
        diff = subprocess.run(["git", "-C", REPO, "diff", "HEAD", "--", "dataiter"], capture_output=True).stdout
        return {"head": head, "diff_sha1": hashlib.sha1(diff).hexdigest() if diff else None}
    except Exception:
        return {}


def write_replay(check_id, n, violation):
    d = os.path.join(OUT, "replays")
    os.makedirs(d, exist_ok=True)
    path = os.path.join(d, f"{check_id}-{n:04d}.json")
    with open(path, "w") as f:
        json.dump({"property": check_id, "tree": tree_identity(), **violation}, f, indent=1, default=repr)
    return path


def clean_replays(check_id):
    d = os.path.join(OUT, "replays")
    if os.path.isdir(d):
        for name in os.listdir(d):
            if name.startswith(check_id + "-"):
                os.unlink(os.path.join(d, name))


def _uniq_count(chunks):
    import numpy as np
    arrs = [np.frombuffer(c, dtype=np.uint64) for c in chunks if c]
    if not arrs:
        return 0
    return int(np.unique(np.concatenate(arrs)).size)


def run_check(check_id, tier, seed):
    t0 = time.time()
    mod = load_check(check_id)
    import dataiter
    if not os.path.abspath(dataiter.__file__).startswith(REPO + os.sep):
        raise InfraError(f"dataiter imported from {dataiter.__file__}, not {REPO}")
    if hasattr(mod, "prepare"):
        try:
            mod.prepare(tier)
        except Exception as e:
            raise InfraError(f"prepare() failed: {type(e).__name__}: {e}")
    shards = list(mod.shards(tier))
    order = list(range(len(shards)))
    # The seed only permutes scheduling order among shards; what is explored is fixed.
    random.Random(seed).shuffle(order)
    nproc = int(os.environ.get("VERIF_JOBS", "0")) or min(16, os.cpu_count() or 1)
    cap = getattr(mod, "TIME_CAP", {}).get(tier)
    results = [None] * len(shards)
    errors = []
    skipped = 0
    ctx = multiprocessing.get_context("fork")
    work = [(check_id, i, shards[i]) for i in order]
    if getattr(mod, "SERIAL", False) or nproc == 1 or len(shards) == 1:
        for w in work:
            if cap and time.time() - t0 > cap:
                skipped += 1
                continue
            r = _work(w)
            if "error" in r:
                errors.append(r)
            else:
                results[r["index"]] = r
    else:
        # one forked process per shard: whatever a shard leaves behind in the interpreter (module-level caches,
        # mutated defaults) cannot reach another shard, so a shard's verdict depends on the shard alone and the
        # shard-level re-execution of a history-dependent violation is exact
        with ctx.Pool(nproc, maxtasksperchild=getattr(mod, "MAXTASKS", 1)) as pool:
            it = pool.imap_unordered(_work, work, chunksize=1)
            # VERIF_STOP_EARLY=1 (used only when evaluating property-breaking changes, never by the MANIFEST commands):
            # stop scheduling shards once a shard has reported a violation that is not a listed known finding
            stop_early = os.environ.get("VERIF_STOP_EARLY") == "1"
            listed = {e["signature"] for e in load_known().get("open", []) if e.get("property") == check_id}
            for r in it:
                if "error" in r:
                    errors.append(r)
                else:
                    results[r["index"]] = r
                    if stop_early and any(s not in listed or s.endswith("|unclassified") for s in r.get("vcount", {})):
                        pool.terminate()
                        break
                if cap and time.time() - t0 > cap:
                    pool.terminate()
                    break
        skipped = sum(1 for i, r in enumerate(results) if r is None) - len(errors)
    if errors:
        for e in errors[:3]:
            sys.stderr.write(f"INFRASTRUCTURE ERROR in shard {e.get('shard')!r}:\n{e['error']}\n")
        raise InfraError(f"{len(errors)} shard(s) failed")
    done = [r for r in results if r is not None]
    evals = sum(r["evals"] for r in done)
    transitions = sum(r["transitions"] for r in done)
    pruned = sum(r["pruned"] for r in done)
    states = _uniq_count([r["states"] for r in done])
    nontrivial = _uniq_count([r["nontrivial"] for r in done])
    outcomes = _uniq_count([r["outcomes"] for r in done])
    extra = {}
    for r in done:
        for k, v in r["extra"].items():
            extra[k] = extra.get(k, 0) + v
    samples = []
    rnd = random.Random(seed)
    with_samples = [r for r in done if r["samples"]]
    for r in rnd.sample(with_samples, min(4, len(with_samples))):
        samples.append(r["samples"][0])
    # ---- violations and known findings -------------------------------
    known = load_known()
    open_by_sig = {}
    for e in known.get("open", []):
        if e.get("property") == check_id:
            open_by_sig[e["signature"]] = e
    by_sig = {}
    counts = {}
    for i in range(len(shards)):  # shard order = size order => smallest first
        r = results[i]
        if r is None:
            continue
        for v in r["violations"]:
            by_sig.setdefault(v["signature"], []).append(v)
        for s, n in r["vcount"].items():
            counts[s] = counts.get(s, 0) + n
    clean_replays(check_id)
    lines = []
    matched = []
    nviol = 0
    nrep = 0
    for sig in sorted(by_sig, key=lambda s: (s.startswith("infra"), s)):
        vs = by_sig[sig]
        if sig in open_by_sig and not sig.endswith("|unclassified"):
            e = open_by_sig[sig]
            lines.append(f"KNOWN-FINDING: property={check_id} {e['what_fails']} [{counts[sig]} case(s)]")
            matched.append({"signature": sig, "cases": counts[sig]})
            continue
        # Re-execute the smallest case before reporting it: the same case must fail the same way,
        # otherwise some nondeterminism was not captured and nothing about it can be believed.
        if os.environ.get("VERIF_NO_RECHECK") != "1" and other_hash_seed(vs[0]["case"]) is not None:
            # explored under another string-hash seed: re-execute the case in a fresh interpreter under that seed
            if not case_reproduces(check_id, vs[0], sig):
                if not shard_reproduces(check_id, vs[0], sig):
                    raise InfraError(f"violation did not reproduce on re-execution under its hash seed, neither as a case nor as a shard "
                                     f"(uncaptured nondeterminism?): {sig}")
                vs[0] = dict(vs[0], case={"__shard__": vs[0].get("shard")},
                             detail="[history-dependent: reproduces only after the earlier cases of its shard; replay re-runs the shard] " + vs[0]["detail"])
        elif os.environ.get("VERIF_NO_RECHECK") != "1" and isinstance(vs[0]["case"], dict) and "__shard__" in vs[0]["case"]:
            # the violation is about a whole shard (an exception out of the library in the middle of it)
            if not shard_reproduces(check_id, vs[0], sig):
                raise InfraError(f"a shard-level violation did not reproduce when the shard was run again: {sig}")
        elif os.environ.get("VERIF_NO_RECHECK") != "1":
            probe = Rec(check_id, mod)
            try:
                with shard_env(vs[0]["case"]):
                    mod.check_case(vs[0]["case"], probe)
            except Exception as e:
                raise InfraError(f"re-execution of a violating case raised {type(e).__name__}: {e} (signature {sig})")
            if sig not in probe.vcount:
                # The case alone does not fail: the violation may depend on what ran earlier in the same process
                # (caches, compiled kernels). Re-run the whole shard in a fresh interpreter; the enumeration order
                # inside a shard is fixed, so a genuine history-dependent violation shows up again.
                if not shard_reproduces(check_id, vs[0], sig):
                    raise InfraError(f"violation did not reproduce on re-execution of the case nor of its shard "
                                     f"(uncaptured nondeterminism?): {sig}; got {sorted(probe.vcount)}")
                vs[0] = dict(vs[0], case={"__shard__": vs[0].get("shard")},
                             detail="[history-dependent: reproduces only after the earlier cases of its shard; replay re-runs the shard] " + vs[0]["detail"])
        nviol += counts[sig]
        nrep += 1
        path = write_replay(check_id, nrep, vs[0])
        lines.append(f"VIOLATION property={check_id} replay={path}")
        lines.append(f"  signature: {sig}  cases: {counts[sig]}")
        lines.append(f"  detail: {vs[0]['detail'][:400]}")
    # ---- evidence -----------------------------------------------------
    wall = time.time() - t0
    exhaustive = skipped == 0
    if evals and not samples:
        samples = [{"note": "no sample recorded"}]
    coverage = {
        "states": states,
        "transitions": transitions,
        "traces_validated_against_impl": evals,
        "evaluations": evals,
        "distinct_nontrivial": nontrivial,
        "rule": mod.RULE,
        "samples": samples,
        "exhaustive": exhaustive,
        "distinct_outcomes": outcomes,
        "pruned_by_cap": pruned,
        "shards": len(shards),
        "shards_completed": len(done),
        "bound": mod.BOUND.get(tier) if isinstance(mod.BOUND, dict) else mod.BOUND,
        "known_findings_matched": matched,
        "violation_signatures": sorted(s for s in by_sig if s not in open_by_sig),
        "counters": extra,
        "tree": tree_identity(),
        "explanation": getattr(mod, "EXPLANATION", ""),
    }
    if not exhaustive:
        coverage["time_cap_s"] = cap
        coverage["completed_bound"] = f"{len(done)} of {len(shards)} size-ordered shards completed before the cap"
    evidence = {
        "property_id": check_id,
        "tier": tier,
        "seed": seed,
        "level": "model_checking",
        "coverage": coverage,
        "assumptions": list(mod.ASSUMPTIONS),
        "wall_s": round(wall, 3),
        "violations": nviol,
    }
    os.makedirs(os.path.join(OUT, "evidence"), exist_ok=True)
    path = os.path.join(OUT, "evidence", f"{check_id}.json")
    tmp = path + ".tmp"
    with open(tmp, "w") as f:
        json.dump(evidence, f, indent=1, default=repr)
    os.replace(tmp, path)
    for line in lines:
        print(line)
    print(f"{check_id} [{tier}] states={states} transitions={transitions} evaluations={evals} "
          f"distinct_nontrivial={nontrivial} distinct_outcomes={outcomes} pruned={pruned} "
          f"shards={len(done)}/{len(shards)} exhaustive={exhaustive} violations={nviol} "
          f"known={len(matched)} wall={wall:.1f}s")
    if evals == 0 or states == 0 or transitions == 0:
        raise InfraError("vacuous run: nothing was explored")
    return 1 if nviol else 0


def case_reproduces(check_id, violation, sig):
    d = tempfile.mkdtemp(prefix="case-replay-", dir=os.environ.get("MC_SCRATCH"))
    path = os.path.join(d, "case.json")
    with open(path, "w") as f:
        json.dump({"property": check_id, "case": violation["case"]}, f)
    env = {k: v for k, v in os.environ.items() if k != "_MC_INNER"}
    p = subprocess.run([sys.executable, os.path.join(VERIF, "run_check.py"), "--replay", path], capture_output=True, text=True, env=env)
    return f"signature: {sig}" in p.stdout


def shard_reproduces(check_id, violation, sig):
    if violation.get("shard") is None:
        return False
    d = tempfile.mkdtemp(prefix="shard-replay-", dir=os.environ.get("MC_SCRATCH"))
    path = os.path.join(d, "case.json")
    with open(path, "w") as f:
        json.dump({"property": check_id, "case": {"__shard__": violation["shard"]}}, f)
    env = dict(os.environ)
    if other_hash_seed(violation["shard"]) is not None:
        env.pop("_MC_INNER", None)   # through the outer stage, which starts the interpreter under the shard's hash seed
    p = subprocess.run([sys.executable, os.path.join(VERIF, "run_check.py"), "--replay", path], capture_output=True, text=True, env=env)
    return f"signature: {sig}" in p.stdout


def run_replay(path):
    with open(path) as f:
        data = json.load(f)
    check_id = data["property"]
    mod = load_check(check_id)
    if hasattr(mod, "prepare"):
        mod.prepare("quick")
    rec = Rec(check_id, mod)
    if isinstance(data["case"], dict) and "__shard__" in data["case"]:
        rec.shard = data["case"]["__shard__"]
        try:
            with shard_env(rec.shard):
                mod.run_shard(data["case"]["__shard__"], rec)
        except Exception as e:
            if not raised_inside_library(e):
                raise
            rec.violation("shard", "uncaught-library-exception", {"__shard__": rec.shard}, f"{type(e).__name__}: {e}")
    else:
        with shard_env(data["case"]):
            mod.check_case(data["case"], rec)
    known = {e["signature"] for e in load_known().get("open", []) if e.get("property") == check_id}
    bad = [v for v in rec.violations if v["signature"] not in known]
    for v in rec.violations:
        tag = "KNOWN-FINDING" if v["signature"] in known else "VIOLATION"
        print(f"{tag} property={check_id} replay={path}")
        print(f"  signature: {v['signature']}")
        print(f"  detail: {v['detail'][:1500]}")
    if not rec.violations:
        print(f"replay of {path}: property held for this case")
    return 1 if bad else 0
