# -*- coding: utf-8 -*-
"""
C08 - Numba acceleration never changes aggregation results.

Two exhaustive spaces, both executed in *fresh interpreter processes* with a
private NUMBA_CACHE_DIR, because the result of an accelerated helper can depend
on which other kernels were compiled earlier in the same process:

(a) inputs (E1): one fresh process per (helper, dtype), JIT cache off; all
    frames of 1..N rows over the dtype's alphabet x every group layout
    {1,2}^n x every helper argument; DataFrame.aggregate under USE_NUMBA=True
    is compared with USE_NUMBA=False: values (tolerance), missing positions,
    result dtype.
(c) same call: every ordered pair of helpers on the same column in ONE aggregate call (the kernels share the
    group-sorted column), compared in the same way on a battery of frames.
(b) histories (E3): a history is a sequence of <= 2 processes, each first-using
    a sequence of (helper, dtype) over a shared private cache directory, with
    USE_NUMBA_CACHE on or off. After every first-use, a fixed battery of frames
    is aggregated with every helper used so far under both settings and
    compared as in (a). Every ordered pair (thorough: also triples) of
    first-uses is executed for real.
"""

import itertools
import json
import os
import subprocess
import sys
import tempfile

ID = "C08"
TITLE = "Numba acceleration never changes aggregation results"
RULE = ("(a) cases = (helper, dtype, values, group layout, arguments), each aggregated with USE_NUMBA on and off in a process that compiles only that helper; "
        "(b) cases = histories of first-uses across <= 2 interpreter processes x cache mode, each followed by a battery comparison; distinct = digest of the case; "
        "non-trivial = values hold a missing value / two groups (a), or the history has >= 2 first-uses (b)")
ASSUMPTIONS = [
    "one machine, Numba 0.60 as installed: order-of-compilation effects live in Numba itself and may differ elsewhere",
    "histories of more than 2 processes or more than 3 first-uses are not explored; values outside the alphabets and frames longer than the bound are not explored",
    "floating results compared with relative tolerance 1e-9",
    "count_unique of a group holding >= 2 NaN/NaT with drop_na=False is still required to agree between the two implementations",
    "std/var with ddof != 0 never use Numba (by design of the library) and are compared all the same",
]
BOUND = {
    "quick": "(c) every ordered pair of helpers in one aggregate call on float/int/date x 16 battery frames x 2x2 argument choices; (a) 1..3 rows (mode: 1..4) x groups {1,2}^n over 3-4 value alphabets for every (helper, dtype in bool,int64,uint8,float,date,datetime) pair it accepts; (b) all ordered pairs of 9 first-uses (7 kernel-family representatives on float64 + first/int64, max/date, mode/bool): one process with cache off; the 30 ordered pairs of 6 of them split across two processes sharing a cache; extreme magnitudes (1.7e308, 1.6e308, -1.7e308, 5e-324, 1.5e-323, NA) in 1..3 rows for every helper on float64; byte-swapped columns",
    "thorough": "(c) as quick on all five dtypes; (a) 1..4 rows, plus timedelta64 (a subclass of signed integer for np.issubdtype); (b) all ordered pairs of all 16 helpers on each of float/int/bool/date x cache {off, cold, warmed by an earlier process}; all ordered triples of the 7 representatives; all ordered cross-dtype pairs of the representatives; plus the additions listed for the quick tier",
}
TIME_CAP = {"quick": 600, "thorough": 6000}
MAXTASKS = None

HELPERS = ["all", "any", "count", "count_unique", "first", "last", "nth", "min", "max", "mode", "mean", "median", "quantile", "std", "var", "sum"]
NUMERIC_ONLY = {"all", "any", "mean", "median", "quantile", "std", "var", "sum"}
KINDS = ["f8", "i8", "b1", "D", "us"]
ALPHA = {
    "f8": [None, "1.0", "2.0", "-1.5", "inf", "-inf", "1000000000.5", "1000000001.5"],
    "i8": [0, 1, 4611686018427387904, -3, 2],
    "b1": [False, True],
    "D": [None, "1970-01-01", "2020-02-29"],
    "us": [None, "1970-01-01T00:00:00", "2020-02-29T23:59:59.999999"],
    "u1": [0, 1, 200, 255],
    "td": [None, "1", "-2"],
}
EXTREME_F8 = [None, "1.7e308", "1.6e308", "-1.7e308", "5e-324", "1.5e-323"]
KINDS_T = KINDS + ["u1", "td"]  # thorough only
REPS = [["max", "f8"], ["mean", "f8"], ["first", "f8"], ["mode", "f8"], ["count_unique", "f8"], ["quantile", "f8"], ["sum", "f8"]]
EXTRA = [["first", "i8"], ["max", "D"], ["mode", "b1"]]


def accepts(helper, kind):
    return not (helper in NUMERIC_ONLY and kind in ("D", "us", "td"))


def arg_menu(helper):
    drop = [None, True, False]
    if helper in ("all", "any"):
        return [{}]
    if helper == "nth":
        return [{"index": i, "drop_na": d} for i in (-2, -1, 0, 1, 2) for d in drop]
    if helper == "quantile":
        return [{"q": q, "drop_na": d} for q in (0, 0.25, 0.5, 1) for d in drop]
    if helper in ("std", "var"):
        return [{"ddof": dd, "drop_na": d} for dd in (0, 1, 2) for d in drop]
    return [{"drop_na": d} for d in drop]


# ---------------------------------------------------------------------------
# harness side

def shards(tier):
    out = []
    n = 3 if tier == "quick" else 4
    for h in HELPERS:
        for k in (KINDS + ["u1"] + (["td"] if h in ("min", "count", "first", "count_unique") else []) if tier == "quick" else KINDS_T):
            if accepts(h, k):
                # mode needs a 4-element group for a tie between two values that each occur twice
                out.append({"mode": "inputs", "helper": h, "kind": k, "n": max(n, 4) if h == "mode" else n})
    # columns in the other byte order (data read from big-endian binary formats): eligible or not, the two settings agree
    for h in ("max", "first", "count_unique", "mean", "sum", "mode"):
        for k in ("D", "f8", "i8"):
            if accepts(h, k):
                out.append({"mode": "inputs", "helper": h, "kind": k, "n": 2, "__env__": {"MC_ARRAY_FORM": "swapped"}})
    # (c) two helpers in the SAME aggregate call: every ordered pair, so that one kernel's side effects
    #     on the shared group-sorted column are seen by the other
    for k in (["f8", "i8", "D"] if tier == "quick" else KINDS):
        hs = [h for h in HELPERS if accepts(h, k)]
        for i in range(0, len(hs), 4):
            out.append({"mode": "samecall", "helpers": hs[i:i + 4], "kind": k})
    if tier == "quick":
        fus = REPS + EXTRA
        for a, b in itertools.permutations(fus, 2):
            out.append({"mode": "history", "procs": [[a, b]], "cache": False})
        for a, b in itertools.permutations(REPS[:5] + EXTRA[:1], 2):
            out.append({"mode": "history", "procs": [[a], [b]], "cache": True})
    else:
        for k in ("f8", "i8", "b1", "D"):
            hs = [[h, k] for h in HELPERS if accepts(h, k)]
            for a, b in itertools.permutations(hs, 2):
                out.append({"mode": "history", "procs": [[a, b]], "cache": False})
                out.append({"mode": "history", "procs": [[a, b]], "cache": True})
                out.append({"mode": "history", "procs": [[a], [b]], "cache": True})
        for a, b, c in itertools.permutations(REPS, 3):
            out.append({"mode": "history", "procs": [[a, b, c]], "cache": False})
            out.append({"mode": "history", "procs": [[a], [b, c]], "cache": True})
        cross = [[h, k] for h, _ in REPS for k in ("f8", "i8", "b1", "D") if accepts(h, k)]
        for a, b in itertools.permutations(cross, 2):
            if a[1] != b[1]:
                out.append({"mode": "history", "procs": [[a, b]], "cache": False})
    return out


def spawn(spec, cache_dir, use_cache):
    env = dict(os.environ)
    env.update({
        "DATAITER_USE_NUMBA": "true",
        "DATAITER_USE_NUMBA_CACHE": "true" if use_cache else "false",
        "NUMBA_CACHE_DIR": cache_dir,
        "PYTHONHASHSEED": "0",
    })
    p = subprocess.run([sys.executable, os.path.abspath(__file__), "--worker"], input=json.dumps(spec), capture_output=True, text=True, env=env)
    if p.returncode != 0:
        raise RuntimeError(f"C08 worker failed for {spec!r}:\n{p.stderr[-3000:]}")
    line = [l for l in p.stdout.splitlines() if l.startswith("{")][-1]
    return json.loads(line)


def merge(rec, res, case_base):
    rec.evals += res["evals"]
    rec.transitions += res["trans"]
    rec.states.extend(res["states"])
    rec.nontrivial.extend(res["nontrivial"])
    rec.outcomes.extend(res["outcomes"])
    for v in res["violations"]:
        rec.violation(v["op"], v["clause"], v["case"], v["detail"])
    for k, n in res.get("counters", {}).items():
        rec.count(k, n)


def run_one(spec, rec):
    scratch = tempfile.mkdtemp(prefix="c08-", dir=os.environ.get("MC_SCRATCH"))
    try:
        if spec["mode"] in ("inputs", "samecall"):
            res = spawn(spec, os.path.join(scratch, "cache"), False)
            merge(rec, res, spec)
            return res
        cache = os.path.join(scratch, "cache")
        used = []
        last = None
        for i, proc in enumerate(spec["procs"]):
            sub = {"mode": "history-proc", "uses": proc, "before": used, "history": spec, "final": i == len(spec["procs"]) - 1}
            last = spawn(sub, cache, spec["cache"])
            merge(rec, last, spec)
            used = used + proc
        return last
    finally:
        import shutil
        shutil.rmtree(scratch, ignore_errors=True)


def run_shard(shard, rec):
    res = run_one(shard, rec)
    if shard["mode"] == "history":
        rec.sample({"history": shard, "compiled_signatures": res.get("signatures")})
    elif shard["mode"] == "samecall":
        rec.sample({"samecall": shard, "pairs": res.get("pairs")})
    else:
        rec.sample({"inputs": shard, "frames": res.get("frames"), "compiled_signatures": res.get("signatures")})


def check_case(case, rec):
    run_one(case, rec)


def classify(v):
    c = v.get("case") or {}
    f = c.get("failing", c)
    toks = f.get("toks") or []
    if v["op"] == "quantile" and v["clause"] == "values" and any(t in ("inf", "-inf") for t in toks):
        # NumPy's np.quantile interpolates with b - (b - a) * (1 - t) for t >= 0.5, which is inf - inf = NaN
        # when an infinity is involved; Numba's np.quantile returns the infinity
        return "infinite-value-in-group"
    return None


# ---------------------------------------------------------------------------
# worker side (fresh interpreter)

def worker():
    import numpy as np
    sys.path.insert(0, os.path.dirname(os.path.dirname(os.path.abspath(__file__))))
    import dataiter as di
    from dataiter import aggregate as agg
    from mc import values as V
    assert di.USE_NUMBA, "worker needs Numba"
    spec = json.loads(sys.stdin.read())
    MASK = (1 << 64) - 1
    res = {"evals": 0, "trans": 0, "states": [], "nontrivial": [], "outcomes": [], "violations": [], "counters": {}}
    seen_sig = {}

    def fn_of(helper, kw):
        f = getattr(di, helper)
        k = {a: b for a, b in kw.items() if not (a == "drop_na" and b is None)}
        if helper == "nth":
            return f("x", k.pop("index"), **k)
        if helper == "quantile":
            return f("x", k.pop("q"), **k)
        return f("x", **k)

    def aggregate(kind, toks, groups, calls, numba):
        d = V.frame([["g", "i8", groups], ["x", kind, toks]])
        di.USE_NUMBA = numba
        try:
            out = d.group_by("g").aggregate(**{f"c{i}": fn_of(h, kw) for i, (h, kw) in enumerate(calls)})
        finally:
            di.USE_NUMBA = True
        return out

    def same(a, b):
        if a is None or b is None:
            return a is None and b is None
        return V.same_value(a, b, tol=True)

    def compare(kind, toks, groups, calls, case_of):
        """Run calls with numba on and off; record violations; returns number compared."""
        res["states"].append(hash((kind, tuple(map(V.tok, toks)), tuple(groups))) & MASK)
        results = {}
        for numba in (True, False):
            try:
                results[numba] = aggregate(kind, toks, groups, calls, numba)
            except Exception as e:
                results[numba] = e
        if isinstance(results[True], Exception) or isinstance(results[False], Exception):
            # attribute per call
            for h, kw in calls:
                r = {}
                for numba in (True, False):
                    try:
                        r[numba] = aggregate(kind, toks, groups, [(h, kw)], numba)
                    except Exception as e:
                        r[numba] = e
                one(kind, toks, groups, h, kw, r[True], r[False], "c0", case_of)
            return
        for i, (h, kw) in enumerate(calls):
            one(kind, toks, groups, h, kw, results[True], results[False], f"c{i}", case_of)

    def one(kind, toks, groups, h, kw, rn, rp, col, case_of):
        res["evals"] += 1
        res["trans"] += 2
        key = hash((kind, tuple(map(V.tok, toks)), tuple(groups), h, repr(sorted(kw.items())))) & MASK
        if None in toks or len(set(groups)) > 1:
            res["nontrivial"].append(key)
        case = case_of(h, kw)
        if isinstance(rn, Exception) or isinstance(rp, Exception):
            if isinstance(rn, Exception) and isinstance(rp, Exception) and type(rn) is type(rp):
                res["counters"]["both_raised"] = res["counters"].get("both_raised", 0) + 1
                return
            res["violations"].append({"op": h, "clause": "raised-differently", "case": case,
                                      "detail": f"numba: {rn if isinstance(rn, Exception) else 'ok'!r}; python: {rp if isinstance(rp, Exception) else 'ok'!r}"})
            return
        a, b = V.cells(rn[col]), V.cells(rp[col])
        if len(a) != len(b) or not all(same(x, y) for x, y in zip(a, b)):
            res["violations"].append({"op": h, "clause": "values", "case": case, "detail": f"numba {a} ({rn[col].dtype}) != python {b} ({rp[col].dtype}) for x={toks} g={groups} {kw}"})
            return
        if V.dtype_name(rn[col]) != V.dtype_name(rp[col]):
            res["violations"].append({"op": h, "clause": "result-dtype", "case": case, "detail": f"numba dtype {rn[col].dtype} != python dtype {rp[col].dtype}; values {a} for x={toks} g={groups} {kw}"})
            return
        if V.cells(rn["g"]) != V.cells(rp["g"]):
            res["violations"].append({"op": h, "clause": "groups", "case": case, "detail": f"group column differs"})
            return
        res["outcomes"].append(hash((h, tuple(map(repr, a)), V.dtype_name(rn[col]))) & MASK)

    def signatures():
        out = {}
        for name in dir(agg):
            f = getattr(agg, name)
            if hasattr(f, "signatures") and f.signatures:
                out[name] = len(f.signatures)
        try:
            for key in list(agg.generic_numba.cache_info() and []) or []:
                pass
        except Exception:
            pass
        return out

    if spec["mode"] == "inputs":
        h, kind = spec["helper"], spec["kind"]
        calls = [(h, kw) for kw in arg_menu(h)]
        if "toks" in spec:  # replay of a single frame
            frames = [(spec["toks"], spec["groups"])]
            calls = [(h, spec["kwargs"])] if "kwargs" in spec else calls
        else:
            frames = []
            for n in range(1, spec["n"] + 1):
                full = ALPHA[kind]
                alpha_n = full if (len(full) * 2) ** n <= 5000 else full[:4]
                for toks in itertools.product(alpha_n, repeat=n):
                    for groups in itertools.product([1, 2], repeat=n):
                        frames.append((list(toks), list(groups)))
            if kind == "f8":
                # magnitudes at both ends of the float64 range (sums of two overflow, halves of the smallest underflow)
                for n in (1, 2, 3):
                    for toks in itertools.product(EXTREME_F8, repeat=n):
                        if n == 3 and len(set(toks)) < 2:
                            continue
                        for groups in ([[1] * n] if n == 3 else itertools.product([1, 2], repeat=n)):
                            frames.append((list(toks), list(groups)))
            # size ladder: periodic long groups (sorting inside a kernel is stable only below 16 elements)
            a = ALPHA[kind][:4]
            for length in (17, 40, 130):
                for p in (2, 3):
                    for pat in itertools.product(a, repeat=p):
                        if len(set(pat)) < 2:
                            continue
                        toks = [pat[i % p] for i in range(length)]
                        frames.append((toks, [1] * length))
                        frames.append((toks, [1 + (i * 2 >= length) for i in range(length)]))
            # unequal group sizes whose first size times the number of groups equals the row count
            for sizes in ((2, 1, 3), (3, 1, 2), (2, 2, 1, 3), (3, 5, 1)):
                nn = sum(sizes)
                contiguous = [g for g, sz in enumerate(sizes, 1) for _ in range(sz)]
                for pat in itertools.product(a, repeat=2):
                    if pat[0] == pat[1]:
                        continue
                    toks = [pat[i % 2] for i in range(nn)]
                    frames.append((toks, contiguous))
                    frames.append((toks, list(reversed(contiguous))))
        for toks, groups in frames:
            compare(kind, toks, groups, calls,
                    lambda hh, kw, toks=toks, groups=groups: {"mode": "inputs", "helper": hh, "kind": kind, "toks": toks, "groups": groups, "kwargs": kw, "n": len(toks)})
        res["frames"] = len(frames)
    elif spec["mode"] == "samecall":
        kind = spec["kind"]
        frames = [(spec["toks"], spec["groups"])] if "toks" in spec else battery(kind) + [(list(reversed(t)), list(reversed(g))) for t, g in battery(kind)]
        npairs = 0
        for h1 in spec["helpers"]:
            others = [spec["second"]] if "second" in spec else [h for h in HELPERS if h != h1 and accepts(h, kind)]
            for h2 in others:
                for pick in (0, -1):
                    kw1, kw2 = arg_menu(h1)[pick], arg_menu(h2)[pick]
                    npairs += 1
                    for toks, groups in frames:
                        compare(kind, toks, groups, [(h1, kw1), (h2, kw2)],
                                lambda hh, kw, toks=toks, groups=groups, h1=h1, h2=h2: {"mode": "samecall", "helpers": [h1], "second": h2, "kind": kind, "toks": toks, "groups": groups})
        res["pairs"] = npairs
    else:
        uses, before = spec["uses"], spec["before"]
        history = spec["history"]
        done = []
        for hk in uses:
            h, kind = hk
            # first use: one tiny aggregation compiles the kernel(s) (or loads them from the shared cache)
            aggregate(kind, battery(kind)[0][0], battery(kind)[0][1], [(h, arg_menu(h)[0])], True)
            done.append(hk)
            res["states"].append(hash(("compiled", tuple(map(tuple, before + done)), history["cache"], len(history["procs"]))) & MASK)
            for hh, kk in before + done:
                for toks, groups in battery(kk):
                    compare(kk, toks, groups, [(hh, kw) for kw in arg_menu(hh)[:4]],
                            lambda h2, kw, toks=toks, groups=groups, kk=kk: {"mode": "history", "procs": history["procs"], "cache": history["cache"],
                                                                         "failing": {"helper": h2, "kind": kk, "toks": toks, "groups": groups, "kwargs": kw,
                                                                                     "after_first_uses": before + done}})
        # history-level non-triviality
        if len(before) + len(uses) >= 2:
            res["nontrivial"].append(hash(("history", json.dumps(history, sort_keys=True))) & MASK)
    res["signatures"] = signatures()
    # dedupe violations per (op, clause) to keep the payload small
    seen, keep = {}, []
    for v in res["violations"]:
        k = (v["op"], v["clause"])
        seen[k] = seen.get(k, 0) + 1
        if seen[k] <= 2:
            keep.append(v)
    res["counters"]["violating_cases"] = len(res["violations"])
    res["violations"] = keep
    print(json.dumps(res))


def battery(kind):
    a = ALPHA[kind]
    na = a[0] if a[0] is None else None
    v1, v2 = [x for x in a if x is not None][:2]
    frames = [
        ([v1], [1]),
        ([v1, v2, v1], [1, 1, 1]),
        ([v1, v2, v2, v1], [1, 1, 2, 2]),
        ([v2, v1, v2], [2, 1, 1]),
    ]
    if None in a:
        frames += [
            ([None], [1]),
            ([None, v1, v2], [1, 1, 1]),
            ([v1, None, None, v2], [1, 1, 2, 2]),
            ([None, None, v2], [1, 1, 2]),
        ]
    return frames


if __name__ == "__main__":
    if "--worker" in sys.argv:
        worker()
