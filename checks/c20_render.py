# -*- coding: utf-8 -*-
"""
C20 - text rendering is total, side-effect free and structurally faithful.

E1 over inputs x configurations: every Vector of length 0..3 over the rendering
alphabet of each dtype, a family of DataFrames of 0..3 columns x 0..3 rows
(all single-column frames, all name pairs, all pairs/triples from a column
menu), GeoJSON objects with every null/non-null geometry sequence, ListOfDicts
over an item alphabet; each rendered through str, repr, to_string and print_
under the full product of arguments, PRINT_* settings and terminal widths.

Oracle: no exception; byte-level snapshot of the object unchanged; for data
frame renderings the layout checker of mc/ref/c20_render_ref.py.
"""

import contextlib
import datetime
import io
import itertools
import json
import os
import re

import numpy as np

import dataiter as di
from mc import values as V
from mc.ref import c20_render_ref as R

ID = "C20"
TITLE = "Text rendering is total, side-effect free and structurally faithful"
RULE = ("cases = (object, entry point, arguments, PRINT_* settings, terminal width) enumerated exhaustively; "
        "distinct = digest of (object description, configuration); non-trivial = the object is non-empty and either "
        "holds a special cell (non-ASCII, line break, >= 50 characters, non-finite/tiny/huge float, object cell) "
        "or the configuration departs from the defaults")
ASSUMPTIONS = [
    "values outside the rendering alphabets (e.g. control characters other than the line breaks \\n, \\r\\n, \\r, \\x0b and U+2028, column names that contain line breaks) and objects larger than 3 x 3 are not explored",
    "max_rows=0 is unspecified (DESIGN 3.5) and excluded; max_elements=0 and max_items=0 are included",
    "layout parsing: blocks of columns are runs of >= 2 lines separated by lines that are exactly '' or '.'; the first line of a block holds names, the second dtype labels, lines made only of rule characters are not data rows, one-line runs are notes",
    "columns are expected to be shown in frame order (names and labels are searched as an in-order, non-overlapping embedding)",
    "the dtype label of a column is 'string' for StringDType and str(numpy dtype) otherwise (Vector.dtype_label as documented)",
    "terminal width is owned through the COLUMNS environment variable read by shutil.get_terminal_size",
    "Vector has no print_ method; its entry points are str, repr, to_string",
]
BOUND = {
    "quick": "vectors: all sequences of length 0..3 over the 'quick' rendering alphabet (<= 13 values incl. an astral character, a zero-width joiner and a right-to-left letter) of 15 dtypes (incl. bytes that are not UTF-8 and NumPy's own StringDType()); frames: all single-column frames of 0..2 rows over the same alphabets plus fixed 3-row columns, all ordered pairs of 11 column names, all ordered pairs of a 10-column menu at 0 and 3 rows, all triples of a 5-column menu at 3 rows; GeoJSON: 0..2 features x {null, Point, Polygon} x 3 property sets x {constructor, read from file}; ListOfDicts: all lists of 0..3 items over 8 items; configurations: full product (max_rows {None,1,2} x max_width {None,1,10,40} x truncate_width {None,1,2,5} | max_elements {None,0,1} | max_items {None,0,1}) x precision {0,2,6} x separator {'', ','} x PRINT_MAX_* {default, 2} x terminal {20, 80} x entry points, plus separator {apostrophe, space, no-break space} x terminal x entry points at precision 2",
    "thorough": "vectors: all sequences of length 0..3 over the 'thorough' alphabets (<= 18 values); frames: all single-column frames of 0..2 rows over the thorough alphabets and of 3 rows over their first 10 values, all ordered pairs of 15 column names, all ordered pairs of the 10-column menu at 0..3 rows and all triples at 0 and 3 rows; GeoJSON: 0..3 features; ListOfDicts: all lists of 0..3 items over 11 items; the same full configuration product",
}
TIME_CAP = {"quick": 600, "thorough": 3000}
EXPLANATION = ("states = distinct object descriptions plus distinct rendered texts (addresses masked); transitions = rendering calls, "
               "each made on the real object under its own PRINT_* settings and COLUMNS value (restored after every call); "
               "distinct_outcomes = distinct (class, rendered text) pairs and violation kinds")

E_ACUTE = "é"          # combining: two code points, display width 1
LONG = "a" * 50
WIDE_LONG = "日" * 20          # 20 code points, display width 40
SETTING_NAMES = ["PRINT_FLOAT_PRECISION", "PRINT_THOUSAND_SEPARATOR", "PRINT_MAX_ROWS", "PRINT_MAX_ELEMENTS",
                 "PRINT_MAX_ITEMS", "PRINT_MAX_WIDTH", "PRINT_TRUNCATE_WIDTH"]
DEFAULTS = {name: getattr(di, name) for name in SETTING_NAMES}

# ---------------------------------------------------------------------------
# alphabets (tokens are JSON-native; see build_array)

ALPHA = {
    "f8": {"quick": [None, "inf", "-inf", "1e-10", "1e20", "1234567.891", "0.5", "-0.0"],
           "thorough": [None, "inf", "-inf", "1e-10", "1e20", "1234567.891", "0.5", "-0.0", "9999999999999998.0", "1e16", "2.5e-07"]},
    "i8": {"quick": [0, -1, 1234567, 2**53 + 1, -2**63],
           "thorough": [0, -1, 1234567, 2**53 + 1, -2**63, 1000]},
    "u1": {"quick": [0, 200], "thorough": [0, 200]},
    "b1": {"quick": [False, True], "thorough": [False, True]},
    "str": {"quick": [None, "a", "日本", E_ACUTE, "l1\nl2", LONG, 'q"r', "l1\n", "l1\r\nl2", "l1\u2028l2", "a\U0001F600b", "x\u200dy\u05d0", "\U0001F468\u200d\U0001F469\u200d\U0001F467"],
            "thorough": [None, "a", "日本", E_ACUTE, "l1\nl2", LONG, "l1\n", WIDE_LONG, "\nl2", "l1\r\nl2", 'q"r', " ", "l1\u2028l2", "l1\x0bl2", "l1\rl2",
                         "a\U0001F600b", "x\u200dy\u05d0", "\U0001F468\u200d\U0001F469\u200d\U0001F467"]},
    "U": {"quick": [None, "a", "日本", "l1\nl2"], "thorough": [None, "a", "日本", "l1\nl2", LONG]},
    "D": {"quick": [None, "1970-01-01", "9999-12-31", "0001-01-01"],
          "thorough": [None, "1970-01-01", "9999-12-31", "0001-01-01", "2020-02-29"]},
    "s": {"quick": [None, "2020-02-29T23:59:59"], "thorough": [None, "2020-02-29T23:59:59", "1969-12-31T23:59:59"]},
    "ms": {"quick": [None, "2020-02-29T23:59:59.999"], "thorough": [None, "2020-02-29T23:59:59.999", "1969-12-31T23:59:59"]},
    "us": {"quick": [None, "2020-02-29T23:59:59.999999", "1969-12-31T23:59:59"],
           "thorough": [None, "2020-02-29T23:59:59.999999", "1969-12-31T23:59:59", "0001-01-01T00:00:00"]},
    "tds": {"quick": [None, 1, 100000], "thorough": [None, 1, 100000, -1]},
    "tdD": {"quick": [None, 1], "thorough": [None, 1, 36500]},
    # bytes are arbitrary binary data: \xff\xfe is not valid UTF-8 (tokens are encoded as latin-1)
    "S": {"quick": ["", "x", "yz", "\u00ff\u00fe"], "thorough": ["", "x", "yz", "\u00ff\u00fe"]},
    # NumPy's own variable-width string type (dtype "T" = StringDType() WITHOUT the library's na_object)
    "T": {"quick": ["", "a", "日本", "l1\nl2", LONG], "thorough": ["", "a", "日本", "l1\nl2", LONG, WIDE_LONG, "l1\r\nl2"]},
    "objx": {"quick": [None, 1, "日本", {"f": "nan"}, {"dict": {"k": 1}}, {"inst": "default"}, {"inst": "multiline"}, {"date": "2020-02-29"}],
             "thorough": [None, 1, "日本", {"f": "nan"}, {"dict": {"k": 1}}, {"inst": "default"}, {"inst": "multiline"}, {"date": "2020-02-29"},
                          {"bytes": "x"}, LONG, True, {"td": 86400}]},
}
KINDS = ["f8", "i8", "u1", "b1", "str", "U", "D", "s", "ms", "us", "tds", "tdD", "S", "T", "objx"]

# fixed 3-row columns used by the quick tier (all rows distinct, specials mixed in one column)
FIXED3 = {
    "f8": [[None, "inf", "1e-10"], ["1e20", "-inf", "0.5"], ["1234567.891", None, "0.5"], ["-0.0", "1234567.891", "inf"]],
    "i8": [[0, -1, 1234567], [2**53 + 1, -2**63, 0], [1234567, 1234567, -1]],
    "u1": [[0, 200, 0]],
    "b1": [[False, True, True]],
    "str": [[None, "日本", E_ACUTE], ["l1\nl2", LONG, 'q"r'], ["a", "l1\n", "日本"], [LONG, None, "l1\nl2"]],
    "U": [[None, "a", "日本"], ["l1\nl2", None, "a"]],
    "D": [[None, "9999-12-31", "0001-01-01"], ["1970-01-01", None, "9999-12-31"]],
    "s": [[None, "2020-02-29T23:59:59", None]],
    "ms": [[None, "2020-02-29T23:59:59.999", None]],
    "us": [[None, "2020-02-29T23:59:59.999999", "1969-12-31T23:59:59"]],
    "tds": [[None, 1, 100000]],
    "tdD": [[None, 1, 1]],
    "S": [["", "x", "yz"], ["\u00ff\u00fe", "x", ""]],
    "T": [["", "日本", "l1\nl2"], [LONG, "a", "l1\nl2"]],
    "objx": [[None, {"dict": {"k": 1}}, {"inst": "multiline"}], [{"f": "nan"}, "日本", {"inst": "default"}],
             [1, {"date": "2020-02-29"}, None], [{"inst": "multiline"}, None, None]],
}

# ("max_rows", "max_width", "geometry": columns named like a rendering argument / like the GeoJSON column)
NAMES = {"quick": ["a", "b", "items", "a b", "_x", "日本語", E_ACUTE, " ", "", "n" * 45, "max_rows"],
         "thorough": ["a", "b", "items", "a b", "_x", "日本語", E_ACUTE, " ", "", "n" * 45, "count", "日" * 25, "max_rows", "max_width", "geometry"]}

# column menu for multi-column frames: (name, kind, 3 tokens); first r tokens are used for r rows
MENU = [
    ("a", "f8", [None, "inf", "1e-10"]),
    ("b", "f8", ["1234567.891", "0.5", None]),
    ("items", "i8", [1234567, -1, 2**53 + 1]),
    ("日本語", "str", ["日本", E_ACUTE, None]),
    ("a b", "str", [LONG, "l1\nl2", 'q"r']),
    ("_x", "objx", [{"dict": {"k": 1}}, None, {"inst": "multiline"}]),
    (E_ACUTE, "D", ["9999-12-31", None, "0001-01-01"]),
    (" ", "b1", [True, False, True]),
    ("", "S", ["x", "", "yz"]),
    ("n" * 45, "tds", [1, None, 100000]),
]
QUICK_TRIPLE_MENU = [0, 3, 4, 5, 9]

GEOMETRIES = {
    "null": None,
    "point": {"type": "Point", "coordinates": [24.94, 60.17]},
    "polygon": {"type": "Polygon", "coordinates": [[[0.0, 0.0], [1.0, 0.0], [1.0, 1.0], [0.0, 0.0]]]},
}
GEO_PROPS = [[], [["p", [1234567, None, 2]]], [["p", [1234567, None, 2]], ["日本語", ["日本", None, "l1\nl2"]]]]

ITEMS = {
    "quick": [
        [["a", None]],
        [["a", {"f": "nan"}]],
        [["a", {"date": "2020-02-29"}], ["b", 1]],
        [["a", {"datetime": "2020-02-29T23:59:59"}]],
        [["日本", "日本"], ["b", E_ACUTE]],
        [],
        [["a", {"dict": {"n": [1, None]}}]],
        [["a", {"inst": "default"}], ["b", "l1\nl2"]],
    ],
}
ITEMS["thorough"] = ITEMS["quick"] + [
    [["a", {"f": "inf"}], ["b", {"td": 86400}]],
    [["a", {"np": ["int64", 1]}], ["b", {"np": ["float64", "nan"]}]],
    [["a", {"bytes": "x"}], ["b", True], ["c", LONG]],
]

# ---------------------------------------------------------------------------
# configurations

PRECISIONS = [6, 2, 0]
SEPARATORS = ["", ","]
PMAX = [None, 2]
TERMS = [80, 20]
FRAME_ARGS = [{k: v for k, v in zip(("max_rows", "max_width", "truncate_width"), t) if v is not None}
              for t in itertools.product([None, 1, 2], [None, 1, 10, 40], [None, 1, 2, 5])]
VECTOR_ARGS = [{}, {"max_elements": 0}, {"max_elements": 1}]
LOD_ARGS = [{}, {"max_items": 0}, {"max_items": 1}]


def configs(cls):
    if cls == "Vector":
        calls = [("str", {}), ("repr", {})] + [("to_string", a) for a in VECTOR_ARGS]
    elif cls == "ListOfDicts":
        calls = [("str", {}), ("repr", {})] + [("to_string", a) for a in LOD_ARGS] + [("print_", a) for a in LOD_ARGS]
    else:
        calls = [("str", {}), ("repr", {})] + [("to_string", a) for a in FRAME_ARGS] + [("print_", a) for a in FRAME_ARGS]
    out = []
    for prec, ksep, pmax, term in itertools.product(PRECISIONS, SEPARATORS, PMAX, TERMS):
        for entry, args in calls:
            out.append({"entry": entry, "args": args, "prec": prec, "ksep": ksep, "pmax": pmax, "term": term})
    # separators that are not characters of Python's format mini-language (apostrophe, space, no-break space)
    for ksep in ("'", " ", "\u00a0"):
        for term in TERMS:
            for entry, args in calls:
                out.append({"entry": entry, "args": args, "prec": 2, "ksep": ksep, "pmax": None, "term": term})
    return out


_CONFIGS = {}


def configs_cached(cls):
    key = "frame" if cls in ("DataFrame", "GeoJSON") else cls
    if key not in _CONFIGS:
        _CONFIGS[key] = configs(cls)
    return _CONFIGS[key]


@contextlib.contextmanager
def settings(cfg):
    saved_env = {k: os.environ.get(k) for k in ("COLUMNS", "LINES")}
    try:
        di.PRINT_FLOAT_PRECISION = cfg["prec"]
        di.PRINT_THOUSAND_SEPARATOR = cfg["ksep"]
        if cfg["pmax"] is not None:
            di.PRINT_MAX_ROWS = di.PRINT_MAX_ELEMENTS = di.PRINT_MAX_ITEMS = cfg["pmax"]
        os.environ["COLUMNS"] = str(cfg["term"])
        os.environ["LINES"] = "24"
        yield
    finally:
        for name, value in DEFAULTS.items():
            setattr(di, name, value)
        for k, v in saved_env.items():
            if v is None:
                os.environ.pop(k, None)
            else:
                os.environ[k] = v


# ---------------------------------------------------------------------------
# building objects from JSON-able descriptions

class Plain:
    """An arbitrary instance: default object repr (contains an address, masked in digests)."""


class MultiLine:
    def __str__(self):
        return "first line\nsecond 日本"

    __repr__ = __str__


def decode_obj(t):
    if t is None or isinstance(t, (bool, int, str)):
        return t
    if isinstance(t, dict) and len(t) == 1:
        (tag, v), = t.items()
        if tag == "f":
            return float(v)
        if tag == "date":
            return datetime.date.fromisoformat(v)
        if tag == "datetime":
            return datetime.datetime.fromisoformat(v)
        if tag == "td":
            return datetime.timedelta(seconds=v)
        if tag == "bytes":
            return v.encode("latin-1")
        if tag == "dict":
            return json.loads(json.dumps(v))
        if tag == "inst":
            return {"default": Plain, "multiline": MultiLine}[v]()
        if tag == "np":
            return getattr(np, v[0])(float(v[1]) if isinstance(v[1], str) else v[1])
    raise ValueError(f"bad object token {t!r}")


def build_array(kind, toks):
    if kind == "S":
        return np.array([t.encode("latin-1") for t in toks], dtype="S" if toks else "S1")
    if kind == "T":
        return np.array(list(toks), dtype=np.dtypes.StringDType())
    if kind in ("tds", "tdD"):
        return np.array(["NaT" if t is None else t for t in toks], dtype=f"timedelta64[{kind[2:]}]")
    if kind == "objx":
        a = np.empty(len(toks), dtype=object)
        for i, t in enumerate(toks):
            a[i] = decode_obj(t)
        return a
    return V.np_array(kind, toks)


def build(desc):
    o = _build(desc)
    if desc.get("grouped"):
        o.group_by(next(iter(dict.keys(o))))
    return o


def _build(desc):
    cls = desc["cls"]
    if cls == "Vector":
        return di.Vector(build_array(desc["kind"], desc["toks"]))
    if cls == "DataFrame":
        return di.DataFrame({name: build_array(kind, toks) for name, kind, toks in desc["cols"]})
    if cls == "GeoJSON":
        geoms = [json.loads(json.dumps(GEOMETRIES[g])) for g in desc["geometry"]]
        if desc["source"] == "ctor":
            data = {name: list(vals) for name, vals in desc["props"]}
            garr = np.empty(len(geoms), dtype=object)
            for i, g in enumerate(geoms):
                garr[i] = g
            data["geometry"] = garr
            return di.GeoJSON(**data)
        feats = []
        for i, g in enumerate(geoms):
            props = {name: vals[i] for name, vals in desc["props"]}
            feats.append({"type": "Feature", "properties": props, "geometry": g})
        d = os.path.join(os.environ.get("MC_SCRATCH") or "/tmp", f"c20-{os.getpid()}")
        os.makedirs(d, exist_ok=True)
        path = os.path.join(d, "in.geojson")
        with open(path, "w", encoding="utf-8") as f:
            json.dump({"type": "FeatureCollection", "name": "日本", "features": feats}, f, ensure_ascii=False)
        return di.GeoJSON.read(path)
    if cls == "ListOfDicts":
        return di.ListOfDicts([{k: decode_obj(t) for k, t in item} for item in desc["items"]])
    raise ValueError(cls)


def shape(desc):
    """(number of columns, number of rows/elements/items)"""
    cls = desc["cls"]
    if cls == "Vector":
        return 1, len(desc["toks"])
    if cls == "DataFrame":
        return len(desc["cols"]), (len(desc["cols"][0][2]) if desc["cols"] else 0)
    if cls == "GeoJSON":
        return len(desc["props"]) + 1, len(desc["geometry"])
    return 1, len(desc["items"])


def _special_token(kind, t):
    if kind == "objx":
        return True
    if isinstance(t, str):
        if kind == "f8":
            return t in ("inf", "-inf") or "e" in t
        return (not t.isascii()) or "\n" in t or len(t) >= 50
    return t is None


def special(desc):
    cls = desc["cls"]
    if cls == "Vector":
        return any(_special_token(desc["kind"], t) for t in desc["toks"])
    if cls == "DataFrame":
        return any(not name.isascii() or len(name) >= 40 or not name.strip() or any(_special_token(kind, t) for t in toks)
                   for name, kind, toks in desc["cols"])
    return True


# ---------------------------------------------------------------------------
# the family of objects per tier (size-ascending)

def vector_descs(tier):
    out = []
    for kind in KINDS:
        for toks in V.seqs(ALPHA[kind][tier], 0, 3):
            out.append({"cls": "Vector", "kind": kind, "toks": list(toks)})
    return out


def frame_descs(tier):
    out = [{"cls": "DataFrame", "cols": []}]
    # (A) single-column frames
    for kind in KINDS:
        alpha = ALPHA[kind][tier]
        if tier == "quick":
            seqs = [list(t) for t in V.seqs(alpha, 0, 2)] + [list(t) for t in FIXED3[kind]]
        else:
            # three-row columns over the first 10 values of the alphabet, shorter ones over all of it
            seqs = [list(t) for t in V.seqs(alpha, 0, 2)] + [list(t) for t in itertools.product(alpha[:10], repeat=3)]
        for toks in seqs:
            out.append({"cls": "DataFrame", "cols": [["a", kind, toks]]})
    # (B) column names: every name on three kinds of column, every ordered pair of names
    names = NAMES[tier]
    for name in names:
        out.append({"cls": "DataFrame", "cols": [[name, "i8", [1234567, -1]]]})
        out.append({"cls": "DataFrame", "cols": [[name, "str", ["日本", LONG]]]})
        out.append({"cls": "DataFrame", "cols": [[name, "f8", []]]})
    for n1, n2 in itertools.permutations(names, 2):
        out.append({"cls": "DataFrame", "cols": [[n1, "i8", [7]], [n2, "str", [E_ACUTE]]]})
    # (C) pairs and triples from the column menu

    def pick(idx, r):
        cols, seen = [], set()
        for i in idx:
            name, kind, toks = MENU[i]
            while name in seen:
                name += "2"
            seen.add(name)
            cols.append([name, kind, toks[:r]])
        return {"cls": "DataFrame", "cols": cols}

    all_menu = range(len(MENU))
    pair_rows = [0, 3] if tier == "quick" else [0, 1, 2, 3]
    for r in pair_rows:
        for idx in itertools.product(all_menu, repeat=2):
            out.append(pick(idx, r))
    if tier == "quick":
        for idx in itertools.product(QUICK_TRIPLE_MENU, repeat=3):
            out.append(pick(idx, 3))
    else:
        for r in [0, 3]:
            for idx in itertools.product(all_menu, repeat=3):
                out.append(pick(idx, r))
    return out


def geojson_descs(tier):
    out = []
    nmax = 2 if tier == "quick" else 3
    for n in range(0, nmax + 1):
        for geoms in itertools.product(["null", "point", "polygon"], repeat=n):
            for props in GEO_PROPS:
                for source in ("ctor", "read"):
                    if source == "read" and n == 0 and props:
                        continue  # a file without features has no property columns
                    out.append({"cls": "GeoJSON", "source": source, "geometry": list(geoms),
                                "props": [[name, vals[:n]] for name, vals in props]})
    return out


def lod_descs(tier):
    return [{"cls": "ListOfDicts", "items": [ITEMS[tier][i] for i in idx]}
            for n in range(0, 4) for idx in itertools.product(range(len(ITEMS[tier])), repeat=n)]


PARTS = {"vector": vector_descs, "frame": frame_descs, "geojson": geojson_descs, "lod": lod_descs}
CHUNK = {"quick": {"vector": 160, "frame": 22, "geojson": 10, "lod": 200},
         "thorough": {"vector": 400, "frame": 60, "geojson": 20, "lod": 300}}
_DESCS = {}


def descs(part, tier):
    if (part, tier) not in _DESCS:
        ds = PARTS[part](tier)
        # size-ascending, stable: cells first, then columns
        ds = sorted(ds, key=lambda d: (shape(d)[0] * shape(d)[1], shape(d)[0]))
        _DESCS[part, tier] = ds
    return _DESCS[part, tier]


def shards(tier):
    out = []
    for part in ("vector", "lod", "geojson", "frame"):
        n = len(descs(part, tier))
        step = CHUNK[tier][part]
        for k, lo in enumerate(range(0, n, step)):
            out.append({"part": part, "tier": tier, "lo": lo, "hi": min(n, lo + step), "rank": k})
    # smallest objects first across parts: interleave by rank within part
    out.sort(key=lambda s: (s["rank"] * CHUNK[tier][s["part"]] / max(1, len(descs(s["part"], tier)))))
    for s in out:
        del s["rank"]
    return out


def run_shard(shard, rec):
    ds = descs(shard["part"], shard["tier"])
    for i, desc in enumerate(ds[shard["lo"]:shard["hi"]]):
        check_case({"obj": desc, "cfgs": configs_cached(desc["cls"])}, rec)
        # every 9th frame / GeoJSON also as an object on which group_by was called before (the mark stays on the object)
        if i % 9 == 4 and desc["cls"] in ("DataFrame", "GeoJSON") and shape(desc)[0] > 0:
            check_case({"obj": dict(desc, grouped=True), "cfgs": configs_cached(desc["cls"])}, rec)


# ---------------------------------------------------------------------------
# execution and oracle

ADDR = re.compile(r"0x[0-9a-fA-F]+")


def observe(obj, cls, cfg):
    """Render once under cfg. Returns ('ok', text) or ('raised', 'Type: message')."""
    entry, args = cfg["entry"], cfg.get("args") or {}
    if entry not in ("str", "repr", "to_string", "print_"):
        raise RuntimeError(f"bad entry point {entry!r}")
    with settings(cfg):
        try:
            if entry == "str":
                text = str(obj)
            elif entry == "repr":
                text = repr(obj)
            elif entry == "to_string":
                text = obj.to_string(**args)
            else:
                buf = io.StringIO()
                with contextlib.redirect_stdout(buf):
                    obj.print_(**args)
                text = buf.getvalue()
                if text.endswith("\n"):
                    text = text[:-1]
        except Exception as e:
            return "raised", f"{type(e).__name__}: {e}"
    return "ok", text


def frame_facts(obj):
    """Names, dtype labels and row count of a frame, read without dataiter's own helpers."""
    arrays = [np.asarray(dict.__getitem__(obj, name)) for name in dict.keys(obj)]
    names = list(dict.keys(obj))
    labels = [R.dtype_label(a) for a in arrays]
    nrow = len(arrays[0]) if arrays else 0
    return names, labels, nrow


def row_limit(cfg):
    limit = (cfg.get("args") or {}).get("max_rows")
    if limit is None:
        limit = cfg["pmax"] if cfg["pmax"] is not None else DEFAULTS["PRINT_MAX_ROWS"]
    return limit


def check_case(case, rec):
    desc = case["obj"]
    cls = desc["cls"]
    okey = json.dumps(desc, sort_keys=True)
    ncol, nrow = shape(desc)
    nonempty = ncol > 0 and nrow > 0
    spec = special(desc)

    def fresh():
        try:
            o = build(desc)
            if not type(o).__name__ == cls:
                raise TypeError(f"built a {type(o).__name__}")
            return o, R.snapshot(o, cls)
        except Exception as e:  # building the operand is not what is under test
            raise RuntimeError(f"harness could not build {desc!r}: {e!r}")

    obj, before = fresh()
    rec.state(okey)
    outcomes_seen = rec.__dict__.setdefault("_c20_outcomes_seen", set())
    is_frame = cls in ("DataFrame", "GeoJSON")
    if is_frame:
        if len(dict.keys(obj)) != ncol or any(len(c) != nrow for c in dict.values(obj)):
            raise RuntimeError(f"harness built a frame of unexpected shape from {desc!r}")
        names, labels, n = frame_facts(obj)
    for cfg in case["cfgs"]:
        ckey = json.dumps(cfg, sort_keys=True)
        departs = bool(cfg.get("args")) or cfg["prec"] != 6 or cfg["ksep"] != "" or cfg["pmax"] is not None or cfg["term"] != 80
        rec.case((okey, ckey), nonempty and (spec or departs))
        rec.trans()
        op = f"{cls}.{cfg['entry']}"
        one = {"obj": desc, "cfgs": [cfg]}
        status, text = observe(obj, cls, cfg)
        after = R.snapshot(obj, cls)
        problems = []
        if status == "raised":
            problems.append(("raised", text))
        elif not isinstance(text, str):
            problems.append(("not-text", f"rendering returned {type(text).__name__}"))
        elif is_frame:
            problems += R.check_frame_text(text, names, labels, n, min(n, row_limit(cfg)))
        if after != before:
            problems.append(("object-changed", f"snapshot before {before!r} after {after!r}"))
        for name, value in DEFAULTS.items():
            if getattr(di, name) != value:
                raise RuntimeError(f"harness failed to restore dataiter.{name}")
        if problems:
            # a failing case that can end up in a replay file (the recorder keeps the first few per
            # signature) is executed a second time on a fresh object; the observation must repeat
            rkey = op + ":" + ",".join(c for c, _ in problems)
            done = rec.__dict__.setdefault("_c20_reexecuted", {})
            if done.get(rkey, 0) < 8:
                done[rkey] = done.get(rkey, 0) + 1
                rec.count("violations_reexecuted")
                obj2, _ = fresh()
                again = observe(obj2, cls, cfg)
                if (again[0], ADDR.sub("0x", str(again[1]))) != (status, ADDR.sub("0x", str(text))):
                    # depends on what ran before in this process (hidden state) or is nondeterministic:
                    # the harness re-executes every reported violation (case, then whole shard in a fresh process) and decides
                    rec.count("diverged_on_immediate_reexecution")
            for clause, detail in problems:
                rec.violation(op, clause, one, detail if clause == "raised" else f"{detail}\n--- rendering ---\n{text}")
            rec.outcome((op, "violation", tuple(c for c, _ in problems)))
            if after != before:
                obj, before = fresh()
            continue
        masked = ADDR.sub("0x", text)
        rec.state(("text", masked))
        ohash = hash((cls, masked))
        if ohash not in outcomes_seen:  # the recorder keeps one digest per call; record each outcome once per shard
            outcomes_seen.add(ohash)
            rec.outcome((cls, masked))
    rec.sample({"obj": desc, "cfgs": case["cfgs"][:1] + case["cfgs"][-1:]})


def classify(v):
    """Narrow classifiers for the defects known on the unchanged tree (DESIGN section 6)."""
    desc = v["case"]["obj"]
    cfg = v["case"]["cfgs"][0]
    cls, clause, detail = desc["cls"], v["clause"], v["detail"]
    if cls == "GeoJSON" and clause == "raised":
        if "unexpected keyword argument 'truncate_width'" in detail and (cfg["entry"] == "print_" or "truncate_width" in cfg["args"]):
            return "geojson-to_string-lacks-truncate_width"
        if "'NoneType' object is not subscriptable" in detail and "null" in desc["geometry"]:
            return "geojson-null-geometry"
    if cls == "GeoJSON" and clause == "dtype-label" and desc["source"] == "read" and not desc["geometry"]:
        return "geojson-read-zero-features-geometry-dtype"
    if cls in ("DataFrame", "GeoJSON") and clause in ("block-width", "data-rows"):
        shown = row_limit(cfg)
        cols = desc["cols"] if cls == "DataFrame" else [[name, "str", vals] for name, vals in desc["props"]]
        cells = [(kind, t) for name, kind, toks in cols for t in toks[:shown] if isinstance(t, str) and kind in ("str", "U")]
        # a cell whose only line break is at its end: splitlines() gives one line, so it is not cut
        if any(kind == "str" and len(t.splitlines()) == 1 and t != t.splitlines()[0] for kind, t in cells):
            return "string-cell-ending-in-line-break"
        if any(kind == "U" and len(t.splitlines()) > 1 for kind, t in cells):
            return "fixed-width-string-cell-multi-line"
    return None
