# -*- coding: utf-8 -*-
"""
C03 - DataFrame.sort is a stable, key-ordered permutation of whole rows.

E1: every key column of length 0..N over the kind's alphabet x dir; every pair
(and selected triples) of key kinds x all columns over {NA, lo, hi} x every
direction vector. Oracle: a recursive *checker* of the stated relation (not one
expected permutation): permutation of whole rows; per tie group the non-missing
keys are monotone in the requested direction, the missing ones sit together at
one end (the end when ascending); full ties keep input order; never raises.
"""

import itertools

import dataiter as di
from mc import values as V
from mc import dfbfs

ID = "C03"
TITLE = "sort is a stable, key-ordered permutation of whole rows"
RULE = ("cases = (frame, ordered key selection, direction vector) enumerated exhaustively; distinct = digest of (columns, keys, dirs); "
        "non-trivial = >= 2 rows and some sort key holds a tie or a missing value")
ASSUMPTIONS = [
    "values outside the alphabets of DESIGN section 4 and frames longer than the row bound are not explored",
    "object columns hold mutually comparable values whose str() order equals their natural order (DESIGN 3.5)",
    "strings are compared by code point; characters above U+FFFF are outside the alphabet",
]
BOUND = {
    "quick": "E2: sort of every column after every history of <= 2 in-place edits / observe-and-discard calls / cell pokes from 7 initial frames; long periodic frames of 17 and 40 rows (period <= 3 over {NA,lo,hi}) per kind; one key: rows 0..3 (0..4 for alphabets <= 4 values) over 'quick' alphabets of 9 kinds x dir; two keys: all 81 kind pairs x {NA,lo,hi}^2 rows 0..3 x 4 direction vectors; three keys: 12 kind triples rows 0..2 x 8 direction vectors; particular values (marker-like text, extreme dates, int64 ends, +inf, two instants of one day), float32 / int32 keys, array forms and provenances of the one-key frames as in C02",
    "thorough": "long periodic frames of 17, 40, 130, 300 rows (period <= 4); one key: rows 0..4 (0..5 for alphabets <= 4 values) over 'thorough' alphabets x dir; two keys: all kind pairs rows 0..4; three keys: 12 kind triples rows 0..3; plus the additions listed for the quick tier",
}
TIME_CAP = {"quick": 240, "thorough": 3000}

KINDS = ["f8", "f4", "i8", "u1", "b1", "str", "U", "D", "us", "ns", "td", "obj"]
TRIPLES = [("f8", "str", "D"), ("str", "f8", "i8"), ("D", "b1", "str"), ("i8", "u1", "f8"), ("U", "obj", "us"),
           ("obj", "D", "U"), ("b1", "str", "f8"), ("us", "U", "i8"), ("str", "str", "str"), ("f8", "f8", "f8"),
           ("u1", "D", "obj"), ("D", "us", "b1")]


def shards(tier):
    out = []
    big = tier != "quick"
    for kind in KINDS:
        alpha = V.alphabet(kind, tier)
        n = (4 if big else 3) + (1 if len(alpha) <= 4 else 0)
        if len(alpha) ** n > 5000:
            for first in range(len(alpha)):
                out.append({"part": "one", "kind": kind, "tier": tier, "n": n, "first": first})
            out.append({"part": "one", "kind": kind, "tier": tier, "n": n - 1, "first": None})
        else:
            out.append({"part": "one", "kind": kind, "tier": tier, "n": n, "first": None})
    # strings that differ only in a trailing NUL (fixed-width NumPy strings cannot tell them apart)
    out.append({"part": "one", "kind": "str", "tier": tier, "n": 3, "first": None, "alpha": [None, "a", "a\x00", "b"]})
    # particular values: text that looks like a missing marker or differs in blanks only, dates outside the nanosecond
    # range, the ends of the int64 range
    out.append({"part": "one", "kind": "str", "tier": tier, "n": 3, "first": None, "alpha": [None, "nan", "None", "NA", " a", "a ", "a"]})
    out.append({"part": "one", "kind": "D", "tier": tier, "n": 3, "first": None, "alpha": [None, "0001-01-01", "9999-12-31", "1677-09-21", "2262-04-12"]})
    out.append({"part": "one", "kind": "i8", "tier": tier, "n": 3, "first": None, "alpha": [0, -9223372036854775808, 9223372036854775807, -1]})
    # object keys whose order as text differs from their order as values (10 < 2 and -3 > -20 as text)
    out.append({"part": "one", "kind": "obj", "tier": tier, "n": 3, "first": None, "alpha": [None, 2, 10, -3, -20]})
    out.append({"part": "one", "kind": "obj", "tier": tier, "n": 3, "first": None, "alpha": [None, 1, 1.0, True, 2, 0.5]})
    # an object column of strings: '' is a value there (it sorts before 'a'), only None is missing
    out.append({"part": "one", "kind": "obj", "tier": tier, "n": 3, "first": None, "alpha": [None, "", "a", "b"]})
    # a narrower integer type with its own minimum (negation overflows there)
    out.append({"part": "one", "kind": "i4", "tier": tier, "n": 3, "first": None})
    # integers on both sides of the int32 range next to small ones
    out.append({"part": "one", "kind": "i8", "tier": tier, "n": 3, "first": None, "alpha": [0, -3000000000, 5, 2147483648, -1]})
    for k1 in KINDS:
        for k2 in KINDS:
            out.append({"part": "two", "kinds": [k1, k2], "n": 4 if big else 3})
    # strings of 50+ characters (never cast to fixed width) with duplicates as FIRST key: the second key decides among them
    for k2 in ("i8", "str", "f8"):
        out.append({"part": "two", "kinds": ["str", k2], "n": 4 if big else 3, "alphas": [[None, V.LONG_A, V.LONG_B], V.alphabet(k2, "key")]})
    # two (three) integer keys that each span more than 2**32 (2**21): a packed key would not fit int64
    wide = [-8589934592, 0, 8589934592, 1]
    out.append({"part": "two", "kinds": ["i8", "i8"], "n": 4 if big else 3, "alphas": [wide, wide]})
    out.append({"part": "two", "kinds": ["i8", "str"], "n": 3, "alphas": [[-4611686018427387904, 0, 4611686018427387903], [None, "a", "b"]]})
    for t in TRIPLES:
        out.append({"part": "three", "kinds": list(t), "n": 3 if big else 2})
    # E2: sort after a history of in-place edits, observe-and-discard calls and cell pokes on the same object
    for init in range(len(dfbfs.INITS)):
        d, M, seen = dfbfs.build_init(init)
        for op in dfbfs.menu(M, seen):
            if op["op"] in dfbfs.INPLACE:
                out.append({"part": "bfs", "init": init, "prefix": [op], "depth": 2 if not big else 3})
    # frames WITHOUT any non-numeric column (a matrix-style shortcut applies only to those), holding integers
    # that float64 cannot represent
    for kind in ("f8", "i8", "u1", "b1"):
        out.append({"part": "numeric", "kind": kind, "n": 4 if big else 3})
    # width ladder: many sort keys at once
    for nk in ([6, 12] if not big else [6, 12, 40]):
        out.append({"part": "manykeys", "nk": nk})
    # long periodic frames: sizes at which NumPy switches sorting algorithm (stability is size-dependent there)
    for kind in KINDS:
        for length in ([17, 40, 1025] if not big else [17, 40, 130, 300, 1025, 65537]):
            out.append({"part": "long", "kind": kind, "length": length, "period": (3 if not big else 4) if length < 1000 else 2})
    from mc import harness
    return harness.with_array_forms(out, tier, lambda sh: sh["part"] == "one" and sh.get("first") is None and "alpha" not in sh)


def payload_cols(n):
    p = [(V.LONG_A + str(i)) if i % 2 else None for i in range(n)]
    q = [None if i % 3 == 0 else repr(i + 0.5) for i in range(n)]
    return [["id", "i8", list(range(n))], ["p", "str", p], ["q", "f8", q]]


def check_order(ids, keycells, dirs):
    """Return None if ids (result order) satisfy the stated relation, else a message."""
    nk = len(keycells)

    def block(rows, level):
        if level == nk:
            if rows != sorted(rows):
                return f"rows {rows} tie on all keys but are not in input order"
            return None
        vals = [keycells[level][i] for i in rows]
        miss = [v is None for v in vals]
        if any(miss):
            k = sum(miss)
            at_end = all(miss[-k:]) and not any(miss[:-k])
            at_start = all(miss[:k]) and not any(miss[k:])
            if not (at_end or at_start):
                return f"key {level}: missing keys not together at one end: {vals}"
            if dirs[level] > 0 and not at_end:
                return f"key {level}: ascending but missing keys not at the end: {vals}"
        oks = [None if v is None else V.value_order_key(v) for v in vals]
        nm = [o for o in oks if o is not None]
        for a, b in zip(nm, nm[1:]):
            if (dirs[level] > 0 and a > b) or (dirs[level] < 0 and a < b):
                return f"key {level}: not monotone for dir {dirs[level]}: {vals}"
        # maximal runs of equal keys (missing == missing)
        i = 0
        while i < len(rows):
            j = i + 1
            while j < len(rows) and ((oks[j] is None and oks[i] is None) or (oks[j] is not None and oks[i] is not None and oks[j] == oks[i])):
                j += 1
            msg = block(rows[i:j], level + 1)
            if msg:
                return msg
            i = j
        return None

    return block(list(ids), 0)


def check_case(case, rec):
    if "history" in case:
        return dfbfs.check_history(case, rec, {"C03"})
    cols = case["cols"]
    keys = case["keys"]
    names = [c[0] for c in cols]
    n = len(cols[0][2])
    d = V.frame(cols)
    if case.get("grouped"):
        d.group_by(*case["grouped"])  # a frame on which group_by was called earlier is a frame too (the mark stays on the object)
    before = V.frame_key(d)
    rec.state(before)
    tin = {name: V.cells(d[name]) for name in names}
    tk = {name: [V.tok(x) for x in tin[name]] for name in names}
    dts = {name: str(d[name].dtype) for name in names}
    nontrivial = n >= 2 and any((None in tin[k]) or len(set(map(repr, tin[k]))) < n for k in keys)
    for dirs in case["dirs"]:
        rec.case((before, tuple(keys), tuple(dirs)), nontrivial)
        rec.trans()
        one = {"cols": cols, "keys": keys, "dirs": [list(dirs)]}
        if case.get("grouped"):
            one["grouped"] = case["grouped"]
        try:
            out = d.sort(**dict(zip(keys, dirs)))
        except Exception as e:
            rec.violation("sort", "raised", one, f"{type(e).__name__}: {e}")
            continue
        try:
            rec.state(V.frame_key(out))
            if list(out.keys()) != names:
                rec.violation("sort", "columns", one, f"columns {list(out.keys())} expected {names}")
                continue
            ids = V.cells(out["id"])
            if sorted(ids) != list(range(n)):
                rec.violation("sort", "permutation", one, f"ids {ids} not a permutation of range({n})")
                continue
            bad = None
            for name in names:
                key = V.col_key(out[name])
                exp = (dts[name], tuple(tk[name][i] for i in ids))
                if key != exp:
                    bad = f"column {name!r}: got {key}, rows {ids} of the input are {exp}"
                    break
            if bad:
                rec.violation("sort", "whole-rows", one, bad)
                continue
            msg = check_order(ids, [tin[k] for k in keys], dirs)
            if msg:
                rec.violation("sort", "order", one, msg + f" (result ids {ids})")
                continue
            rec.outcome(tuple(ids))
            if V.frame_key(d) != before:
                rec.violation("sort", "receiver-changed", one, "receiver changed by sort")
                return
        except Exception as e:
            rec.violation("sort", "malformed-result", one, f"{type(e).__name__}: {e}")
    rec.sample({"cols": cols, "keys": keys, "dirs": case["dirs"][:1]})


def numeric_payload(n):
    return [["id", "i8", list(range(n))],
            ["big", "i8", [9007199254740993 + 2 * ((i * 5) % 7) for i in range(n)]],   # 2**53 + 1, + 3, ...: odd, not floats
            ["q", "f8", [None if i % 3 == 0 else repr(i + 0.5) for i in range(n)]],
            ["w", "u1", [(i * 37) % 256 for i in range(n)]]]


def run_shard(shard, rec):
    if shard["part"] == "numeric":
        kind = shard["kind"]
        alpha = V.alphabet(kind, "key")
        for toks in V.seqs(alpha, 0, shard["n"]):
            m = len(toks)
            check_case({"cols": [["k", kind, list(toks)]] + numeric_payload(m), "keys": ["k"], "dirs": [[1], [-1]]}, rec)
            check_case({"cols": [["k", kind, list(toks)]] + numeric_payload(m), "keys": ["k", "w"], "dirs": [[1, -1], [-1, 1]]}, rec)
        for length in (17, 40):
            for p in (1, 2, 3):
                for pat in itertools.product(alpha, repeat=p):
                    toks = [pat[i % p] for i in range(length)]
                    check_case({"cols": [["k", kind, toks]] + numeric_payload(length), "keys": ["k"], "dirs": [[1], [-1]]}, rec)
        return
    if shard["part"] == "manykeys":
        nk = shard["nk"]
        kinds = [KINDS[j % len(KINDS)] for j in range(nk)]
        for rows in (0, 1, 5, 9):
            for variant in range(4):
                cols = []
                for j, kind in enumerate(kinds):
                    a = V.alphabet(kind, "key")
                    # early keys tie a lot (few distinct values in a slow cycle), so later keys decide
                    cols.append([f"k{j:02d}", kind, [a[((i * (variant + 1)) // (1 + (nk - j) // 2) + j) % len(a)] for i in range(rows)]])
                cols += payload_cols(rows)
                knames = [c[0] for c in cols[:nk]]
                dirs = [[1] * nk, [-1] * nk, [1 if j % 2 else -1 for j in range(nk)], [-1 if j % 3 else 1 for j in range(nk)]]
                check_case({"cols": cols, "keys": knames, "dirs": dirs}, rec)
                check_case({"cols": cols, "keys": list(reversed(knames)), "dirs": dirs[2:]}, rec)
        return
    if shard["part"] == "bfs":
        last = shard["depth"] - 1
        filt = lambda level, op: (op["op"] == "sort") if level == last else (op["op"] in dfbfs.INPLACE)
        dfbfs.explore(shard["init"], shard["prefix"], shard["depth"], rec, {"C03"}, op_filter=filt)
        rec.sample({"part": "bfs", "init": dfbfs.INITS[shard["init"]], "history": shard["prefix"]})
        return
    if shard["part"] == "one":
        kind, tier, n = shard["kind"], shard["tier"], shard["n"]
        alpha = shard.get("alpha") or V.alphabet(kind, tier)
        if shard["first"] is None:
            it = V.seqs(alpha, 0, n)
        else:
            it = ((alpha[shard["first"]],) + rest for rest in itertools.product(alpha, repeat=n - 1))
        for toks in it:
            toks = list(toks)
            cols = [["k", kind, toks]] + payload_cols(len(toks))
            check_case({"cols": cols, "keys": ["k"], "dirs": [[1], [-1]]}, rec)
            if 2 <= len(toks) <= 3:
                # sort after group_by: by the group column, and by another column than the group column
                check_case({"cols": cols, "keys": ["k"], "dirs": [[1], [-1]], "grouped": ["k"]}, rec)
                check_case({"cols": cols, "keys": ["k"], "dirs": [[1], [-1]], "grouped": ["q"]}, rec)
    elif shard["part"] == "long":
        kind, length = shard["kind"], shard["length"]
        alpha = V.alphabet(kind, "key")
        for p in range(1, shard["period"] + 1):
            for pat in itertools.product(alpha, repeat=p):
                toks = [pat[i % p] for i in range(length)]
                cols = [["k", kind, toks]] + payload_cols(length)
                check_case({"cols": cols, "keys": ["k"], "dirs": [[1], [-1]]}, rec)
                toks2 = [alpha[(i // 2) % len(alpha)] for i in range(length)]
                cols = [["k0", kind, toks], ["k1", kind, toks2]] + payload_cols(length)
                check_case({"cols": cols, "keys": ["k0", "k1"], "dirs": [[1, -1], [-1, 1]]}, rec)
    else:
        kinds, n = shard["kinds"], shard["n"]
        alphas = shard.get("alphas") or [V.alphabet(k, "key") for k in kinds]
        knames = [f"k{i}" for i in range(len(kinds))]
        dirs = [list(x) for x in itertools.product([1, -1], repeat=len(kinds))]
        for m in range(0, n + 1):
            per = [list(itertools.product(a, repeat=m)) for a in alphas]
            for combo in itertools.product(*per):
                cols = [[knames[i], kinds[i], list(combo[i])] for i in range(len(kinds))] + payload_cols(m)
                check_case({"cols": cols, "keys": knames, "dirs": dirs}, rec)


def classify(v):
    c = v.get("case") or {}
    cols = c.get("cols") or []
    if v["op"] == "sort" and v["clause"] == "order" and c.get("keys") == ["k"] and cols and cols[0][1] == "str":
        toks = cols[0][2]
        if "a" in toks and "a\x00" in toks and all(t in (None, "a", "a\x00", "b") for t in toks):
            # 'a' and 'a\x00' tie under the fixed-width cast used for ranking strings
            return "string-differing-only-in-trailing-NUL"
    return None
