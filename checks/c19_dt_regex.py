# -*- coding: utf-8 -*-
"""
C19 - dt and regex functions act element-wise like datetime and re.

E1. Four dt parts and two string parts, every one enumerated completely:

  extract    every vector of length 0..N over the calendar alphabet (NaT anywhere) in units
             D, h, m, s, ms, us x the 11 extractors (time-of-day ones on s, ms, us only)
  tostr      the same vectors x a fixed family of locale-independent strftime formats
  roundtrip  from_string(to_string(x, f), f) for every format that Python's own
             strptime(strftime(e, f), f) inverts for every element of x
  replace    the same vectors x every non-empty subset of <= 2 components x scalar, vector and
             mixed arguments; only argument sets that Python's own replace accepts for every element
  re         every string vector of length 0..N over {'', a, ab1, aXa, ' ', e-acute} x patterns x flags x
             the 7 functions (count / maxsplit in {0, 1}, four replacement forms)
  str        the .str proxy: every public attribute x an argument menu, compared with numpy.strings

Every call is made through the module function, through the Vector proxy on a fresh vector, through
a proxy that was created while the vector held other contents, and (one-element vectors) with the
scalar in place of the vector. Oracle: mc/ref/c19_calendar_ref.py (plain datetime / re).
"""

import itertools
import re

import numpy as np

import dataiter as di
from dataiter import dt, regex
from mc import values as V
from mc.harness import InfraError
from mc.ref import c19_calendar_ref as R

ID = "C19"
TITLE = "dt and regex functions act element-wise like datetime and re"
RULE = ("cases = (vector, operation, arguments, calling route) enumerated exhaustively; one evaluation = one real "
        "dataiter call compared element by element with datetime / re; distinct = digest of (unit, elements, "
        "operation, arguments, route); non-trivial = the vector has a non-missing element and either a missing "
        "element as well or at least two elements")
ASSUMPTIONS = [
    "calendar values outside the alphabet (8 dates x 2-3 times of day, NaT), vectors longer than the bound, strftime "
    "formats / patterns / replacement strings outside the fixed families are not explored",
    "time-of-day extractors are applied to s, ms and us vectors only; replace() components are limited to those the "
    "vector's unit can hold (hour on h and finer, ..., microsecond on ms (multiples of 1000) and us)",
    "replace() argument sets that Python's own date/datetime.replace rejects for some element are excluded, not guessed",
    "a format counts as unambiguous for a vector iff datetime.strptime(e.strftime(f), f) == e for each of its elements "
    "(this excludes years < 1000 on this platform)",
    "Python's datetime and re modules are the trusted reference; Match objects are compared by span() and groups()",
    "for .str the 'module functions' are those of numpy.strings: only proxy == numpy.strings is demanded",
    "count / maxsplit are passed to the .re proxy by keyword (the proxy binds `string` by keyword)",
]
BOUND = {
    "quick": "dt: units D,h,m,s,ms,us; extract (11 extractors), to_string (13 formats), round trip (2-6 formats per unit): all vectors of "
             "length 0..3 over the full calendar alphabet (NaT + 8 dates for D; NaT + 8 dates x 2 times of day, plus 2 midnight-plus-fraction "
             "values for ms and us: 17-19 values); replace: all vectors of length 0..3 over a 6-value sub-alphabet x all subsets of <= 2 "
             "components x 2-3 values per component x scalar / vector / mixed arguments; regex: all string vectors of length 0..3 over 6 strings "
             "x 8 patterns (+ 5 more over a 4-string alphabet with NULs: a literal NUL, an end anchor, and three patterns whose first match is a proper prefix so that fullmatch must backtrack) x flags {0, I} x 7 functions x count/maxsplit {0,1} x 4 replacements; .str: every proxy attribute x 1-2 argument tuples",
    "thorough": "as quick, with replace over the full calendar alphabet as well, plus extract / to_string / round trip at length 4 over a "
                "10-11 value sub-alphabet; regex vectors of length 0..4, compiled patterns, and length 0..3 over 8 strings (multi-line, "
                "upper case) x flags {0, I, M, I|M}; .str over the 8 strings",
}
EXPLANATION = ("Every evaluation is one real dataiter.dt / dataiter.regex / proxy call whose result is read back element by element "
               "(missing positions through Vector.is_na of the result) and compared with the same call on Python's datetime / re for that element. "
               "'states' counts distinct input vectors and distinct result vectors.")
TIME_CAP = {"quick": 300, "thorough": 3000}
BOUND["quick"] += '; the small shards also in other array forms (NumPy StringDType, product of concat, other byte order; thorough: strided, product of a fancy index)'
BOUND["thorough"] += "; plus the additions listed for the quick tier"

UNITS = ["D", "h", "m", "s", "ms", "us"]

# DESIGN section 4: leap day, pre-1970, year bounds, ISO week 53 (2020-12-31), ISO week 53 of the
# previous year on a Sunday (2021-01-03), ISO week 1 of the next year (2024-12-30).
DATES = ["1970-01-01", "2020-02-29", "1969-12-31", "9999-12-31", "0001-01-01", "2020-12-31", "2021-01-03", "2024-12-30"]
TIMES = {
    "h": ["T00", "T23"],
    "m": ["T00:00", "T23:59"],
    "s": ["T00:00:00", "T23:59:59"],
    "ms": ["T00:00:00.000", "T23:59:59.999"],
    "us": ["T00:00:00.000000", "T23:59:59.999999"],
}
# midnight with nothing but a sub-second part: from_string's date/datetime downgrade looks at h, m, s
EXTRA = {"ms": ["2020-02-29T00:00:00.001", "1969-12-31T00:00:00.001"],
         "us": ["2020-02-29T00:00:00.000001", "1969-12-31T00:00:00.000001"]}

DATE_EXTRACTORS = ["year", "month", "day", "weekday", "isoweekday", "isoweek", "quarter"]
TIME_EXTRACTORS = ["hour", "minute", "second", "microsecond"]

FORMATS = ["%Y-%m-%d", "%d.%m.%Y", "%Y%m%d", "%y", "%j", "%G-W%V-%u", "%U %W %w", "%H:%M:%S",
           "%Y-%m-%dT%H:%M:%S.%f", "%%Y", "", "%Y", "x%dé"]
RT_FORMATS = {
    "D": ["%Y-%m-%d", "%d.%m.%Y", "%Y%m%d", "%Y-%j", "%G-W%V-%u", "%Y-%m-%dT%H:%M:%S"],
    "h": ["%Y-%m-%dT%H", "%Y-%m-%d %H:%M:%S"],
    "m": ["%Y-%m-%dT%H:%M", "%d.%m.%Y %H.%M"],
    "s": ["%Y-%m-%dT%H:%M:%S", "%Y%m%d%H%M%S", "%d.%m.%Y %H:%M:%S", "%Y-%m-%d %X", "%x %X"],
    "ms": ["%Y-%m-%dT%H:%M:%S.%f", "%d.%m.%Y %H:%M:%S,%f"],
    "us": ["%Y-%m-%dT%H:%M:%S.%f", "%d.%m.%Y %H:%M:%S,%f"],
}

COMPONENTS = {
    "D": ["year", "month", "day"],
    "h": ["year", "month", "day", "hour"],
    "m": ["year", "month", "day", "hour", "minute"],
    "s": ["year", "month", "day", "hour", "minute", "second"],
    "ms": ["year", "month", "day", "hour", "minute", "second", "microsecond"],
    "us": ["year", "month", "day", "hour", "minute", "second", "microsecond"],
}
DOMAIN = {"year": [1, 2000, 9999], "month": [1, 2, 12], "day": [1, 29, 31], "hour": [0, 23],
          "minute": [0, 59], "second": [0, 59, 1], "microsecond": [0, 100, 999999]}   # (1 s, 0 us) and (0 s, 100 us): 1 * 100 + 0 == 0 * 100 + 100
DOMAIN_MS = dict(DOMAIN, microsecond=[0, 1000, 999000])
FORMS = ["list", "vector", "ndarray"]

STRINGS = ["", "a", "ab1", "aXa", " ", "é"]
STRINGS_X = STRINGS + ["a\nb", "A"]
PATTERNS = ["a", "[a-z]+", r"\d", "x*", "^", "$", "(a)(b)?", r"\s+"]
REPLS = ["", "Z", r"[\g<0>]", "@upper", "@counter"]
STRINGS_NUL = ["", "ab", "ab\x00", "\x00b"]   # NumPy's fixed-width strings drop trailing NULs

# .str proxy: attribute -> argument tuples (referenced by index from a case)
STR_MENU = {
    "add": [("x",)], "capitalize": [()], "center": [(5,), (4, "*")], "count": [("a",)], "decode": [()],
    "encode": [()], "endswith": [("a",)], "equal": [("a",)], "expandtabs": [()], "find": [("a",)],
    "greater": [("a",)], "greater_equal": [("a",)], "index": [("a",)], "isalnum": [()], "isalpha": [()],
    "isdecimal": [()], "isdigit": [()], "islower": [()], "isnumeric": [()], "isspace": [()], "istitle": [()],
    "isupper": [()], "less": [("a",)], "less_equal": [("a",)], "ljust": [(4,)], "lower": [()],
    "lstrip": [(), ("a",)], "mod": [(3,)], "multiply": [(2,), (0,)], "not_equal": [("a",)],
    "replace": [("a", "b"), ("a", "")], "rfind": [("a",)], "rindex": [("a",)], "rjust": [(4,)],
    "rstrip": [(), ("a",)], "startswith": [("a",)], "str_len": [()], "strip": [(), ("a",)], "swapcase": [()],
    "title": [()], "translate": [({97: 98},)], "upper": [()], "zfill": [(3,)],
}


# ---------------------------------------------------------------------------
# spaces

def alphabet(unit, which):
    """which: 'full' > 'sub' > 'mini' (each a subset of the previous one)."""
    if unit == "D":
        if which == "mini":
            return [None, "1970-01-01", "2020-02-29", "9999-12-31", "0001-01-01", "2020-12-31"]
        return [None] + DATES
    t = TIMES[unit]
    if which == "full":
        return [None] + [d + x for d in DATES for x in t] + EXTRA.get(unit, [])
    if which == "mini":
        return [None, "1970-01-01" + t[0], "2020-02-29" + t[1], "9999-12-31" + t[1], "0001-01-01" + t[0], "1969-12-31" + t[1]]
    out = [None] + [d + t[i % 2] for i, d in enumerate(DATES)] + ["2020-02-29" + t[0]]
    return out + EXTRA.get(unit, [])[:1]


def replace_ops(unit, n):
    comps = COMPONENTS[unit]
    dom = DOMAIN_MS if unit == "ms" else DOMAIN
    ops = []

    def rot(c, r):
        d = dom[c]
        return [d[(i + r) % len(d)] for i in range(n)]

    seen = set()

    def add(args, form, via):
        key = repr((args, form if any(isinstance(v, list) for v in args.values()) else None))
        if key not in seen:
            seen.add(key)
            ops.append({"op": "replace", "args": args, "form": form, "via": via})

    both = ["module", "proxy"]
    k = 0
    for c in comps:
        for v in dom[c]:
            add({c: v}, "list", both + ["scalar"])
        for r in range(len(dom[c])):
            add({c: rot(c, r)}, FORMS[k % 3], both)
            k += 1
    for c1, c2 in itertools.combinations(comps, 2):
        d1, d2 = dom[c1], dom[c2]
        for v1 in d1:
            for v2 in d2:
                add({c1: v1, c2: v2}, "list", ["module", "scalar"])
        for r1 in range(len(d1)):
            for r2 in range(len(d2)):
                add({c1: rot(c1, r1), c2: rot(c2, r2)}, FORMS[k % 3], ["module"])
                k += 1
        for j in range(max(len(d1), len(d2))):
            add({c1: d1[j % len(d1)], c2: rot(c2, j)}, FORMS[k % 3], both)
            add({c1: rot(c1, j), c2: d2[j % len(d2)]}, FORMS[(k + 1) % 3], both)
            k += 2
    return ops


def dt_ops(part, unit, n):
    if part == "extract":
        names = DATE_EXTRACTORS + (TIME_EXTRACTORS if unit in R.FINE_UNITS else [])
        return [{"op": "extract", "name": name} for name in names]
    if part == "tostr":
        return [{"op": "to_string", "format": f} for f in FORMATS]
    if part == "roundtrip":
        return [{"op": "roundtrip", "format": f} for f in RT_FORMATS[unit]]
    if part == "replace":
        return replace_ops(unit, n)
    raise ValueError(part)


def re_ops(pattern, flags, compiled=False):
    base = {"pattern": pattern, "flags": flags}
    if compiled:
        base["compiled"] = True
    ops = [dict(base, op=fn) for fn in ("findall", "fullmatch", "match", "search")]
    ops += [dict(base, op="split", count=c) for c in (0, 1)]
    for fn in ("sub", "subn"):
        for c in (0, 1):
            for repl in REPLS:
                ops.append(dict(base, op=fn, count=c, repl=repl))
    return ops


def str_ops():
    return [{"op": "str", "name": name, "arg": i} for name in sorted(STR_MENU) for i in range(len(STR_MENU[name]))]


def prepare(tier):
    """A .str proxy attribute without an argument menu must not slip past unnoticed."""
    proxy = V.vector("str", ["a"]).str
    names = sorted(k for k, f in vars(proxy).items() if not k.startswith("_") and callable(f))
    missing = [k for k in names if k not in STR_MENU]
    if missing:
        raise InfraError(f"uncovered: .str proxy attributes without an argument menu: {missing}")


def shards(tier):
    small, big = [], []

    def dt_shards(part, which, n):
        for unit in UNITS:
            alpha = alphabet(unit, which)
            if n == 3:
                small.append({"part": part, "unit": unit, "alpha": which, "n": 2, "first": None})
                # the same under a local time zone that is not UTC (half-hour offset, daylight saving): datetime64 values
                # are naive, nothing may go through the machine's local time
                small.append({"part": part, "unit": unit, "alpha": which, "n": 2, "first": None, "__env__": {"TZ": "America/St_Johns"}})
            for first in range(len(alpha)):
                big.append({"part": part, "unit": unit, "alpha": which, "n": n, "first": first})

    for part in ("extract", "tostr", "roundtrip"):
        dt_shards(part, "full", 3)
    dt_shards("replace", "mini" if tier == "quick" else "full", 3)
    for pattern in PATTERNS:
        for flags in (0, int(re.I)):
            small.append({"part": "re", "alpha": "base", "pattern": pattern, "flags": flags, "n": 3, "first": None})
    # "a|ab", "(a+?)(b?)", "a*?": the first success of match() covers a proper prefix only - fullmatch has to backtrack (seeded C19-r12-1)
    for pattern in PATTERNS + [r"\x00", r"b$", "a|ab", "(a+?)(b?)", "a*?"]:
        small.append({"part": "re", "alpha": "nul", "pattern": pattern, "flags": 0, "n": 3, "first": None})
    small.append({"part": "str", "alpha": "base", "n": 2, "first": None})
    for first in range(len(STRINGS)):
        big.append({"part": "str", "alpha": "base", "n": 3, "first": first})
    if tier == "thorough":
        for part in ("extract", "tostr", "roundtrip"):
            dt_shards(part, "sub", 4)
        for pattern in PATTERNS:
            for flags in (0, int(re.I)):
                for first in range(len(STRINGS)):
                    big.append({"part": "re", "alpha": "base", "pattern": pattern, "flags": flags, "n": 4, "first": first})
                big.append({"part": "re", "alpha": "base", "pattern": pattern, "flags": flags, "n": 3, "first": None, "compiled": True})
            for flags in (0, int(re.I), int(re.M), int(re.I | re.M)):
                big.append({"part": "re", "alpha": "ext", "pattern": pattern, "flags": flags, "n": 3, "first": None})
        for first in range(len(STRINGS_X)):
            big.append({"part": "str", "alpha": "ext", "n": 3, "first": first})
    # other forms / provenances of the same vectors (mc/values.np_array, vector_via): NumPy's own StringDType(), a strided
    # read-only view, the other byte order, the product of a concatenation
    extra = []
    for sh in small:
        if "__env__" in sh:
            continue
        if sh["part"] in ("re", "str") and sh.get("alpha") == "base" and (sh["part"] == "str" or sh["flags"] == 0):
            forms = ["npstring", "viarbind"] if tier == "quick" else ["npstring", "viarbind", "strided", "viaslice"]
        elif sh["part"] in ("extract", "tostr", "roundtrip", "replace"):
            forms = ["swapped"] if tier == "quick" else ["swapped", "viarbind", "strided"]
        else:
            continue
        for form in forms:
            extra.append(dict(sh, __env__={"MC_ARRAY_FORM": form}))
    return small + extra + big


def _vectors(alpha, n, first):
    if first is None:
        return V.seqs(alpha, 0, n)
    return ((alpha[first],) + rest for rest in itertools.product(alpha, repeat=n - 1))


def run_shard(shard, rec):
    part = shard["part"]
    if part in ("extract", "tostr", "roundtrip", "replace"):
        unit = shard["unit"]
        alpha = alphabet(unit, shard["alpha"])
        cache = {}
        for toks in _vectors(alpha, shard["n"], shard["first"]):
            n = len(toks)
            if n not in cache:
                cache[n] = dt_ops(part, unit, n)
            check_case({"part": "dt", "unit": unit, "toks": list(toks), "ops": cache[n]}, rec)
    elif part == "re":
        alpha = {"base": STRINGS, "ext": STRINGS_X, "nul": STRINGS_NUL}[shard["alpha"]]
        ops = re_ops(shard["pattern"], shard["flags"], shard.get("compiled", False))
        if shard["alpha"] == "nul":
            # np.str_("ab\x00") is 'ab' already (NumPy's scalar type trims), so the scalar route is left out here
            ops = [dict(op, via=["module", "proxy", "stale_proxy"]) for op in ops]
        for toks in _vectors(alpha, shard["n"], shard["first"]):
            check_case({"part": "re", "toks": list(toks), "ops": ops}, rec)
    elif part == "str":
        alpha = STRINGS if shard["alpha"] == "base" else STRINGS_X
        ops = str_ops()
        for toks in _vectors(alpha, shard["n"], shard["first"]):
            check_case({"part": "re", "toks": list(toks), "ops": ops}, rec)
    else:
        raise ValueError(part)


# ---------------------------------------------------------------------------
# observation helpers

class Malformed(Exception):
    pass


def norm(x):
    """One cell or scalar -> Python value with None for every missing value of dataiter's NA model."""
    if x is None:
        return None
    if isinstance(x, np.datetime64):
        if np.isnat(x):
            return None
        u = np.datetime_data(x.dtype)[0]
        if u in ("ns", "ps", "fs", "as"):
            x = x.astype("datetime64[us]")
        return x.item()
    if isinstance(x, np.generic):
        x = x.item()
    if isinstance(x, float) and x != x:
        return None
    if isinstance(x, str) and x == "":
        return None
    return x


def observe(r, n):
    """(missing flags by Vector.is_na, normalised cells, dtype string) of a vector result."""
    if not isinstance(r, di.Vector):
        raise Malformed(f"result is {type(r).__name__}, not a Vector")
    if r.ndim != 1 or len(r) != n:
        raise Malformed(f"result has shape {r.shape}, expected ({n},)")
    na = np.asarray(r.is_na()).tolist()
    return na, [norm(x) for x in V.cells(r)], V.dtype_name(r)


def nkey(c):
    """Hashable token of a normalised cell (result cells can be lists, tuples, Match objects)."""
    if isinstance(c, (list, tuple, re.Match)):
        return R.summary(c)
    return V.tok(c)


def sval(x):
    """Comparable digest of a scalar result / element 0 of a vector result."""
    x = norm(x)
    if isinstance(x, (list, tuple, re.Match)):
        return R.summary(x)
    return x


def same(a, b):
    if isinstance(a, tuple) or isinstance(b, tuple):
        return a == b
    return V.same_value(a, b)


def dt_vector(unit, toks):
    return V.vector(unit, toks)


def stale_dt_vector(unit, toks):
    """A vector whose .dt proxy was created while it held other contents."""
    # ... and on which dt functions were already CALLED with those other contents (anything a call
    # cached on the vector, its proxy or the module is stale now)
    # ... and which is itself DERIVED (a slice) from a longer vector whose proxy had been used before: whatever a
    # vector hands on to the vectors derived from it must not be bound to the source
    src = di.Vector(np.full(len(toks) + 2, "2001-02-03", dtype=f"datetime64[{unit}]"))
    src.dt.year()
    src.dt.to_string("%Y")
    y = src[1:-1]
    if len(toks):
        y[-1] = np.datetime64("NaT")
    y.dt
    y.dt.year()
    di.dt.day(y)
    di.dt.to_string(y, "%Y")
    y[:] = V.np_array(unit, toks)
    return y


def stale_str_vector(toks, attr):
    # (in the string type of the shard's array form: dataiter's own, or NumPy's StringDType() without na_object)
    src = di.Vector(np.array(["zz"] * (len(toks) + 2), dtype=V.np_array("str", ["zz"]).dtype))
    getattr(src, attr)
    if attr == "re":
        src.re.findall("z")
    else:
        src.str.upper()
    y = src[1:-1]
    getattr(y, attr)
    if attr == "re":
        y.re.findall("z")
        di.regex.sub("z", "y", y)
    else:
        y.str.upper()
    y[:] = V.np_array("str", toks)
    return y


def as_form(values, form):
    if form == "list":
        return list(values)
    if form == "vector":
        return di.Vector(np.array(values, dtype="int64"))
    if form == "ndarray":
        return np.array(values, dtype="int64")
    raise ValueError(form)


# ---------------------------------------------------------------------------
# dt

def dt_call(op, x, via_proxy):
    o = op["op"]
    if o == "extract":
        return getattr(x.dt, op["name"])() if via_proxy else getattr(dt, op["name"])(x)
    if o == "to_string":
        return x.dt.to_string(op["format"]) if via_proxy else dt.to_string(x, op["format"])
    if o == "roundtrip":
        f = op["format"]
        if via_proxy:
            return x.dt.to_string(f).dt.from_string(f)
        return dt.from_string(dt.to_string(x, f), f)
    if o == "replace":
        kw = {c: (as_form(v, op["form"]) if isinstance(v, list) else v) for c, v in op["args"].items()}
        return x.dt.replace(**kw) if via_proxy else dt.replace(x, **kw)
    raise ValueError(o)


def dt_expected(op, unit, els):
    """Expected Python value per element (None at NaT), or None if the case is outside the space."""
    o = op["op"]
    if o == "extract":
        return [None if e is None else R.extract(op["name"], e) for e in els]
    if o == "to_string":
        return [None if e is None else R.strftime(e, op["format"]) for e in els]
    if o == "roundtrip":
        if not all(e is None or R.python_round_trips(e, op["format"]) for e in els):
            return None
        return list(els)
    if o == "replace":
        out = []
        for i, e in enumerate(els):
            if e is None:
                out.append(None)
                continue
            kw = {c: (v[i] if isinstance(v, list) else v) for c, v in op["args"].items()}
            ok, val = R.replace(e, kw)
            if not ok:
                return None
            out.append(val)
        return out
    raise ValueError(o)


def dt_compare(op, toks, want, r):
    """Returns (failure, result key); failure is (clause, detail) of the first failed demand, or None."""
    n = len(toks)
    na, got, dtype = observe(r, n)
    o = op["op"]
    for i in range(n):
        if toks[i] is None:
            if not na[i]:
                return ("na-flag", f"position {i} is NaT but is_na() of the result is False there; "
                                   f"result cells {got} dtype {dtype}"), None
        else:
            w = want[i]
            g = got[i]
            if o == "to_string":
                ok = (g if g is not None else "") == w
            else:
                ok = g is not None and V.same_value(g, w)
            if not ok:
                return ("value", f"position {i}: got {g!r}, Python gives {w!r}; input {toks} result cells {got} dtype {dtype}"), None
    if o == "extract" and None not in toks and np.asarray(r).dtype.kind not in "iu":
        return ("int-dtype", f"no NaT in the input but the result dtype is {dtype}, not an integer type; input {toks}"), None
    return None, (dtype, tuple(nkey(c) for c in got))


def check_dt(case, rec):
    unit, toks = case["unit"], case["toks"]
    n = len(toks)
    els = [R.element(unit, t) for t in toks]
    inkey = ("dt", unit, tuple(toks))
    rec.state(inkey)
    nontrivial = any(t is not None for t in toks) and (None in toks or n >= 2)
    for op in case["ops"]:
        okey = repr({k: v for k, v in op.items() if k != "via"})
        want = dt_expected(op, unit, els)
        if want is None:
            rec.count(op["op"] + "_outside_space")
            continue
        o = op["op"]
        if "via" in op:
            vias = list(op["via"])
        elif o == "replace":
            vias = ["module", "proxy", "scalar"]
        else:
            vias = ["module", "proxy", "stale_proxy", "scalar"]
        if o == "replace" and any(isinstance(v, list) for v in op["args"].values()):
            vias = [v for v in vias if v != "scalar"]
        base = None
        for via in vias:
            if via == "scalar":
                if n == 1:
                    check_dt_scalar(case, op, okey, unit, toks, els, base, nontrivial, rec)
                continue
            if via == "stale_proxy" and n == 0:
                continue
            one = {"part": "dt", "unit": unit, "toks": toks, "ops": [dict(op, via=[via])]}
            rec.case((inkey, okey, via), nontrivial)
            rec.trans()
            if via == "stale_proxy":
                x = stale_dt_vector(unit, toks)
            else:
                x = dt_vector(unit, toks)
            try:
                r = dt_call(op, x, via != "module")
            except Exception as e:
                rec.violation(o, "raised", one, f"{via}: {type(e).__name__}: {e}; input {toks}, Python gives {want}")
                continue
            try:
                bad, rkey = dt_compare(op, toks, want, r)
            except Malformed as e:
                rec.violation(o, "malformed-result", one, f"{via}: {e}")
                continue
            if bad is not None:
                rec.violation(o, bad[0], one, f"{via}: {bad[1]}")
                continue
            rec.state(("dtr",) + rkey)
            rec.outcome((o, op.get("name"), rkey))
            if via == "module":
                base = r
    rec.sample({"part": "dt", "unit": unit, "toks": toks, "ops": case["ops"][:1] + case["ops"][-1:]})


def check_dt_scalar(case, op, okey, unit, toks, els, base, nontrivial, rec):
    """Scalar argument == element 0 of the one-element vector call (`base`, already checked against Python)."""
    if base is None:
        return
    o = op["op"]
    scalars = [("scalar_np", np.datetime64("NaT" if toks[0] is None else toks[0], unit))]
    if els[0] is not None:
        scalars.append(("scalar_py", els[0]))
    for via, s in scalars:
        one = {"part": "dt", "unit": unit, "toks": toks, "ops": [dict(op, via=["module", "scalar"])]}
        rec.case((("dt", unit, tuple(toks)), okey, via), nontrivial)
        rec.trans()
        try:
            r = dt_call(op, s, False)
        except Exception as e:
            rec.violation(o, "scalar-raised", one, f"{via} {s!r}: {type(e).__name__}: {e}; the one-element vector call gives {base}")
            continue
        if isinstance(r, np.ndarray) and r.ndim > 0:
            rec.violation(o, "scalar-vs-vector", one, f"{via} {s!r}: scalar call returned an array {r!r}")
            continue
        a, b = sval(r), sval(base[0])
        if not ((a is None and b is None) or (a is not None and b is not None and same(a, b))):
            rec.violation(o, "scalar-vs-vector", one, f"{via} {s!r}: scalar call gives {r!r}, element 0 of the one-element vector call gives {base[0]!r}")
            continue
        rec.outcome((o, "scalar", V.tok(a) if not isinstance(a, tuple) else a))


# ---------------------------------------------------------------------------
# regex and .str

def upper_repl(m):
    return "<" + m.group(0).upper() + ">"


def counter_repl():
    """A replacement function with state: numbers the matches it is asked about, in the order it is asked."""
    c = itertools.count(1)
    return lambda m: f"{m.group(0)}#{next(c)}"


def re_args(op):
    pattern = re.compile(op["pattern"], op["flags"]) if op.get("compiled") else op["pattern"]
    flags = 0 if op.get("compiled") else op["flags"]
    repl = op.get("repl")
    if repl == "@upper":
        repl = upper_repl
    elif repl == "@counter":
        repl = counter_repl()  # fresh state for every library call
    return pattern, flags, repl


def counter_candidates(op, toks):
    """With a stateful replacement function the statement fixes no order in which the elements are handled:
    every order of handling each non-missing element exactly once is accepted."""
    idx = [i for i, s in enumerate(toks) if s != ""]
    out = []
    for perm in itertools.permutations(idx):
        pattern, flags, repl = re_args(op)
        want = [None] * len(toks)
        for i in perm:
            want[i] = R.summary(R.re_call(op["op"], pattern, toks[i], flags=flags, repl=repl, count=op.get("count", 0)))
        if want not in out:
            out.append(want)
    return out


def re_call_impl(op, x, via_proxy):
    pattern, flags, repl = re_args(op)
    fn = op["op"]
    if via_proxy:
        f = getattr(x.re, fn)
        if fn == "split":
            return f(pattern, maxsplit=op["count"], flags=flags)
        if fn in ("sub", "subn"):
            return f(pattern, repl, count=op["count"], flags=flags)
        return f(pattern, flags=flags)
    f = getattr(regex, fn)
    if fn == "split":
        return f(pattern, x, maxsplit=op["count"], flags=flags)
    if fn in ("sub", "subn"):
        return f(pattern, repl, x, count=op["count"], flags=flags)
    return f(pattern, x, flags=flags)


def re_expected(op, s):
    pattern, flags, repl = re_args(op)
    return R.re_call(op["op"], pattern, s, flags=flags, repl=repl, count=op.get("count", 0))


def check_re(case, rec):
    toks = case["toks"]
    n = len(toks)
    inkey = ("str", tuple(toks))
    rec.state(inkey)
    nontrivial = any(toks) and ("" in toks or n >= 2)
    for op in case["ops"]:
        if op["op"] == "str":
            check_str(case, op, inkey, nontrivial, rec)
            continue
        okey = repr({k: v for k, v in op.items() if k != "via"})
        fn = op["op"]
        stateful = op.get("repl") == "@counter"
        wants = counter_candidates(op, toks) if stateful else [[None if s == "" else R.summary(re_expected(op, s)) for s in toks]]
        vias = list(op["via"]) if "via" in op else ["module", "proxy", "stale_proxy", "scalar"]
        base = None
        for via in vias:
            if via == "scalar":
                if n == 1 and base is not None:
                    check_re_scalar(op, okey, toks, base, nontrivial, rec)
                continue
            if via == "stale_proxy" and n == 0:
                continue
            one = {"part": "re", "toks": toks, "ops": [dict(op, via=[via])]}
            rec.case((inkey, okey, via), nontrivial)
            rec.trans()
            x = stale_str_vector(toks, "re") if via == "stale_proxy" else V.vector("str", ["" if t is None else t for t in toks])
            try:
                r = re_call_impl(op, x, via != "module")
            except Exception as e:
                rec.violation(fn, "raised", one, f"{via}: {type(e).__name__}: {e}; input {toks}")
                continue
            if not isinstance(r, di.Vector) or r.ndim != 1 or len(r) != n:
                rec.violation(fn, "malformed-result", one, f"{via}: result {r!r} is not a Vector of length {n}")
                continue
            na = np.asarray(r.is_na()).tolist()
            raw = np.asarray(r).tolist()  # not Vector.tolist(): that one already maps missing to None
            got = [R.summary(g) for g in raw]
            bad = None
            for want in wants:
                bad = None
                for i in range(n):
                    if toks[i] == "":
                        if not na[i]:
                            bad = ("na-flag", f"position {i} is '' (missing) but is_na() of the result is False there; result {raw!r}")
                            break
                    elif got[i] != want[i]:
                        bad = ("value", f"position {i} ({toks[i]!r}): got {got[i]!r}, re.{fn} gives {want[i]!r}; input {toks}"
                               + (f" (a replacement function that numbers its calls; result {got} matches no order of handling each element once)" if stateful else ""))
                        break
                if bad is None:
                    break
            if bad:
                rec.violation(fn, bad[0], one, f"{via}: {bad[1]}")
                continue
            rkey = (V.dtype_name(r), tuple(got))
            rec.state(("rer",) + rkey)
            rec.outcome((fn, rkey))
            if via == "module":
                base = r
    rec.sample({"part": "re", "toks": toks, "ops": case["ops"][:1] + case["ops"][-1:]})


def check_re_scalar(op, okey, toks, base, nontrivial, rec):
    fn = op["op"]
    for via, s in (("scalar_str", toks[0]), ("scalar_np", np.str_(toks[0]))) + ((("scalar_none", None),) if toks[0] == "" else ()):
        one = {"part": "re", "toks": toks, "ops": [dict(op, via=["module", "scalar"])]}
        rec.case((("str", tuple(toks)), okey, via), nontrivial)
        rec.trans()
        try:
            r = re_call_impl(op, s, False)
        except Exception as e:
            rec.violation(fn, "scalar-raised", one, f"{via} {s!r}: {type(e).__name__}: {e}")
            continue
        b0 = base[0]
        a, b = sval(r), sval(b0)
        if a != b:
            rec.violation(fn, "scalar-vs-vector", one,
                          f"{via} {s!r}: scalar call gives {r!r}, element 0 of the one-element vector call gives {b0!r}")
            continue
        rec.outcome((fn, "scalar", a))


def outcome_of(f):
    try:
        r = f()
    except Exception as e:
        return ("raised", type(e).__name__), None
    a = np.asarray(r)
    cells = a.tolist()
    return ("ok", str(a.dtype), a.shape, tuple(V.tok(c) for c in cells) if a.ndim == 1 else repr(cells)), r


def check_str(case, op, inkey, nontrivial, rec):
    toks = case["toks"]
    name = op["name"]
    args = STR_MENU[name][op["arg"]]
    okey = ("str", name, op["arg"])
    f = getattr(np.strings, name, None)
    if f is None:
        rec.count("str_function_not_in_this_numpy")
        return
    plain = V.np_array("str", toks)
    want, _ = outcome_of(lambda: f(plain, *args))
    vias = list(op["via"]) if "via" in op else ["proxy", "stale_proxy"]
    for via in vias:
        if via == "stale_proxy" and len(toks) == 0:
            continue
        one = {"part": "re", "toks": toks, "ops": [dict(op, via=[via])]}
        rec.case((inkey, okey, via), nontrivial)
        rec.trans()
        x = stale_str_vector(toks, "str") if via == "stale_proxy" else V.vector("str", toks)
        got, r = outcome_of(lambda: getattr(x.str, name)(*args))
        if got != want:
            rec.violation("str." + name, "proxy-vs-module", one, f"{via}: x.str.{name}{args} gives {got}, numpy.strings.{name} gives {want}")
            continue
        rec.state(("strr", name) + got)
        rec.outcome(("str", name, got))


def check_case(case, rec):
    if case["part"] == "dt":
        return check_dt(case, rec)
    if case["part"] == "re":
        return check_re(case, rec)
    raise ValueError(case["part"])


# ---------------------------------------------------------------------------
# narrow classifiers for violations (signatures of known findings; see DESIGN section 6)

def classify(v):
    case = v["case"]
    op = case["ops"][0]
    toks = case["toks"]
    clause = v["clause"]
    if case["part"] == "dt":
        nothing = all(t is None for t in toks)  # empty or all NaT
        if v["op"] == "to_string" and clause == "na-flag" and nothing:
            return "all-NaT"
        if v["op"] == "roundtrip" and clause == "raised" and nothing:
            return "empty-or-all-NaT"
        if v["op"] == "roundtrip" and clause == "value" and any(t is not None and "T00:00:00." in t and not t.endswith(".000") and not t.endswith(".000000") for t in toks) \
                and all(t is None or "T00:00:00" in t for t in toks):
            return "all-midnight-with-fraction"
        if v["op"] == "extract" and clause == "int-dtype" and len(toks) == 0:
            return "empty"
    if case["part"] == "re" and clause == "scalar-vs-vector" and toks == [""]:
        return "scalar-empty-string"
    return None
