# -*- coding: utf-8 -*-
"""
C02 - row subsetting returns exactly the selected whole rows, in order.

E1: every key column of length 0..N over the kind's alphabet, extended with a
row-id column and two payload columns of other dtypes, x every argument of
every subsetting method (all 2^n masks in three calling forms, every
column=value, index tuples, subsets, n, every RNG answer of sample(), key
subsets of unique()). Oracle: reference on row ids; every output column must be
the input column taken at the expected ids (dtype and exact cell preserved).
"""

import itertools
import numpy as np

import dataiter as di
from mc import values as V

ID = "C02"
TITLE = "Row subsetting returns exactly the selected whole rows, in order"
RULE = ("cases = (frame, operation, argument) enumerated exhaustively; distinct = digest of (columns, op, args); "
        "non-trivial = frame has >= 2 rows and its key column holds a missing value or a duplicate")
ASSUMPTIONS = [
    "values outside the alphabets of DESIGN section 4 and frames longer than the row bound are not explored",
    "np.random.choice is the only source of randomness in DataFrame.sample (when the seam is not hit only the relation 'ordered n-subset' is checked)",
    "negative n for head/tail and filter() with no condition are unspecified and excluded",
    "a string ending in a NUL character is explored as a column value but not as the comparison scalar of filter(col=value): NumPy's scalar conversion trims it before any comparison",
]
BOUND = {
    "quick": "size ladder: periodic frames of 17, 129, 1025 rows for f8/str/i8/D keys and 65537 rows for int keys (thorough: 65537 for all four) x unique/drop_na/head/tail/slice/filter; rows 0..3; single-key alphabets 'quick' (<= 6 values) for f8,i8,u1,b1,str,U,D,us,obj; two-key frames over {NA,lo,hi}^2 with rows 0..3; all masks/indices/subsets/n/RNG answers; particular values (marker-like text, dates outside the nanosecond range, the ends of int64, +inf, long double keys either side of 2**53), filter values of another type than the column, array forms and provenances of the single-key frames (strided, list-built, NumPy StringDType, other byte order, product of rbind; thorough: read-only, reversed, products of slice / deepcopy / Arrow)",
    "thorough": "rows 0..4; single-key alphabets 'thorough' (<= 10 values); two-key frames rows 0..4; all masks/indices/subsets/n/RNG answers; plus the additions listed for the quick tier",
}
TIME_CAP = {"quick": 240, "thorough": 3000}

KINDS = ["f8", "f4", "i8", "u1", "b1", "str", "U", "D", "us", "ns", "td", "obj"]
PAIRS = [("f8", "str"), ("str", "D"), ("D", "f8"), ("i8", "U"), ("b1", "us"), ("obj", "f8"), ("U", "str"), ("us", "i8"), ("f8", "f8"), ("str", "str")]


def nmax(tier):
    return 3 if tier == "quick" else 4


def shards(tier):
    out = []
    n = nmax(tier)
    for kind in KINDS:
        alpha = V.alphabet(kind, tier)
        if len(alpha) ** n > 3000:
            for first in range(len(alpha)):
                out.append({"part": "single", "kind": kind, "tier": tier, "n": n, "first": first})
            out.append({"part": "single", "kind": kind, "tier": tier, "n": n - 1, "first": None})
        else:
            out.append({"part": "single", "kind": kind, "tier": tier, "n": n, "first": None})
    # strings that differ only in a trailing NUL (fixed-width NumPy strings cannot tell them apart)
    out.append({"part": "single", "kind": "str", "tier": tier, "n": 3, "first": None, "alpha": [None, "a", "a\x00", "b"]})
    # particular values: text that looks like a missing marker or differs in blanks only, dates outside the nanosecond
    # range, the ends of the int64 range
    out.append({"part": "single", "kind": "str", "tier": tier, "n": 3, "first": None, "alpha": [None, "nan", "None", "NA", " a", "a ", "a"]})
    out.append({"part": "single", "kind": "D", "tier": tier, "n": 3, "first": None, "alpha": [None, "0001-01-01", "9999-12-31", "1677-09-21", "2262-04-12"]})
    out.append({"part": "single", "kind": "i8", "tier": tier, "n": 3, "first": None, "alpha": [0, -9223372036854775808, 9223372036854775807, -1]})
    # object keys of mixed type that are equal in Python: 1 == 1.0 == True is ONE key; 2 is another
    out.append({"part": "single", "kind": "obj", "tier": tier, "n": 3, "first": None, "alpha": [None, 1, 1.0, True, 2]})
    # extended-precision keys that differ beyond what float64 holds (2**53 and 2**53 + 1): distinct keys (seeded C02-r12-1)
    if np.finfo(np.longdouble).nmant > 52:
        out.append({"part": "single", "kind": "f16", "tier": tier, "n": 3, "first": None, "alpha": [None, "1", "9007199254740992", "9007199254740993"]})
    # frames WITHOUT any non-numeric column (matrix-style shortcuts apply only to those), holding integers float64 cannot represent
    for kind in ("f8", "i8"):
        out.append({"part": "single", "kind": kind, "tier": tier, "n": 3, "first": None, "numeric": True, "alpha": V.alphabet(kind, "key")})
    for k1, k2 in PAIRS:
        out.append({"part": "pair", "k1": k1, "k2": k2, "n": n})
    # an integer key beyond 2**53 next to a float key (no common NumPy type holds both exactly), and two float keys
    # holding infinities of opposite sign (their sum is NaN although nothing is missing)
    out.append({"part": "pair", "k1": "i8", "k2": "f8", "n": 3, "alphas": [[9007199254740992, 9007199254740993, 0], ["1.0", "2.0"]]})
    out.append({"part": "pair", "k1": "f8", "k2": "f8", "n": 2, "alphas": [[None, "inf", "-inf", "1.0"], [None, "inf", "-inf", "1.0"]]})
    # size ladder: periodic frames just above powers of two / ten (a chunked or cached implementation must not care)
    for kind in ("f8", "str", "i8", "D"):
        for length in ([17, 129, 1025] if tier == "quick" else [17, 129, 1025, 65537]):
            out.append({"part": "long", "kind": kind, "length": length})
    # width ladder: whole rows means ALL columns, also when there are many
    for kind in ("f8", "str"):
        out.append({"part": "wide", "kind": kind, "ncol": 40 if tier == "quick" else 300})
    if tier == "quick":
        na = len(V.alphabet("i8", "key"))
        for j in range(na + na * na):  # one shard per pattern: these frames are expensive to read back cell by cell
            out.append({"part": "long", "kind": "i8", "length": 65537, "maxperiod": 2, "only": j})
    from mc import harness
    return harness.with_array_forms(out, tier, lambda sh: sh["part"] == "single" and sh.get("first") is None and sh["kind"] in ("f8", "str", "i8", "D", "b1"))


def payload_cols(n):
    p = [(V.LONG_A + str(i)) if i % 2 else None for i in range(n)]
    q = [None if i % 3 == 0 else repr(i + 0.5) for i in range(n)]
    return [["id", "i8", list(range(n))], ["p", "str", p], ["q", "f8", q]]


def numeric_payload(n):
    return [["id", "i8", list(range(n))],
            ["p", "i8", [9007199254740993 + 2 * ((i * 5) % 7) for i in range(n)]],   # 2**53 + 1, + 3, ...: odd, not floats
            ["q", "f8", [None if i % 3 == 0 else repr(i + 0.5) for i in range(n)]]]


def decode_value(kind, t):
    if kind in ("f8", "f4"):
        return float(t)
    if kind == "f16":
        return np.longdouble(t)
    if kind in ("D", "s", "ms", "us", "ns"):
        return np.datetime64(t)
    return t


def ops_for(cols, full_index):
    """All operations for one frame. cols[0] is the key column (cols[1] too for pairs)."""
    n = len(cols[0][2])
    names = [c[0] for c in cols]
    ops = []
    for mask in itertools.product([False, True], repeat=n):
        for form in ("vector", "callable", "list", "int01", "intlist"):
            ops.append({"op": "filter", "mask": list(mask), "form": form})
            ops.append({"op": "filter_out", "mask": list(mask), "form": form})
    kind = cols[0][1]
    for t in dict.fromkeys(x for x in cols[0][2] if x is not None):
        ops.append({"op": "filter_eq", "col": cols[0][0], "value": t})
        ops.append({"op": "filter_out_eq", "col": cols[0][0], "value": t})
    # a value of ANOTHER type than the column's: rows match where the values are equal (1 == 1.0, nothing equals 1.5 in
    # an integer column, a day equals its midnight instant and no later instant of that day)
    foreign = {"i8": [("f8", "1.5"), ("f8", "1.0")], "i4": [("f8", "1.5"), ("f8", "1.0")], "u1": [("f8", "5.5"), ("f8", "5.0")],
               "D": [("us", "2020-02-29T18:30:00"), ("us", "2020-02-29T00:00:00")], "f8": [("i8", 1)], "b1": [("i8", 1), ("i8", 2)]}.get(kind, [])
    for vkind, t in foreign:
        ops.append({"op": "filter_eq", "col": cols[0][0], "value": t, "vkind": vkind})
        ops.append({"op": "filter_out_eq", "col": cols[0][0], "value": t, "vkind": vkind})
    # several column=value conditions at once (all must hold), against the id and a payload column
    for t in dict.fromkeys(x for x in cols[0][2] if x is not None):
        for i in range(min(n, 2)):
            ops.append({"op": "filter_eq2", "col": cols[0][0], "value": t, "col2": "id", "value2": i})
            ops.append({"op": "filter_out_eq2", "col": cols[0][0], "value": t, "col2": "id", "value2": i})
    # slice / slice_off rows
    idx = list(range(-n, n))
    if full_index:
        tuples = [t for k in range(0, 4) for t in itertools.product(idx, repeat=k)]
    else:
        subs = [s for k in range(0, n + 1) for s in itertools.combinations(range(n), k)]
        tuples = list(dict.fromkeys(subs + [tuple(reversed(s)) for s in subs]
                                    + [(s[0],) + s for s in subs if s]
                                    + [tuple(i - n for i in s) for s in subs]))
    for t in tuples:
        ops.append({"op": "slice", "rows": list(t)})
    # a position that does not exist (one past either end) is not a position of the frame: refused, not folded back
    for bad in ([n], [-n - 1], [0, n] if n else [1]):
        ops.append({"op": "slice", "rows": bad, "reject": True})
        ops.append({"op": "slice_off", "rows": bad, "reject": True})
    for k in range(0, n + 1):
        for s in itertools.combinations(range(n), k):
            ops.append({"op": "slice_off", "rows": list(s)})
            if len(s) >= 2:
                ops.append({"op": "slice_off", "rows": list(reversed(s)) + [s[0]]})
            if s and full_index:
                ops.append({"op": "slice_off", "rows": [i - n for i in s]})
    if full_index:
        nc = len(cols)
        for k in range(0, nc + 1):
            for s in itertools.permutations(range(nc), k):
                ops.append({"op": "slice", "rows": None, "cols": list(s)})
            for s in itertools.combinations(range(nc), k):
                ops.append({"op": "slice_off", "rows": None, "cols": list(s)})
        ops.append({"op": "slice", "rows": [n - 1, 0] if n else [], "cols": [1, 0]})
    for m in [None] + list(range(0, n + 2)):
        ops.append({"op": "head", "n": m})
        ops.append({"op": "tail", "n": m})
    for k in range(0, len(names) + 1):
        for s in itertools.combinations(names, k):
            ops.append({"op": "drop_na", "cols": list(s)})
    for m in [None] + list(range(0, n + 2)):
        mm = min(n, 10 if m is None else m)
        for ans in itertools.permutations(range(n), mm):
            ops.append({"op": "sample", "n": m, "answer": list(ans)})
    return ops


def unique_ops(keynames):
    ops = []
    for k in range(1, len(keynames) + 1):
        for s in itertools.permutations(keynames, k):
            ops.append({"op": "unique", "cols": list(s)})
    ops.append({"op": "unique_all", "cols": list(keynames)})
    return ops


class ChoiceSeam:
    def __init__(self, nrow, answer):
        self.nrow, self.answer, self.hit = nrow, answer, False

    def __call__(self, a, size=None, replace=True, p=None):
        self.hit = True
        if a != self.nrow or replace or size != len(self.answer):
            raise AssertionError(f"unexpected RNG request a={a!r} size={size!r} replace={replace!r}")
        return np.array(self.answer, dtype=int)


def expected_ids(op, tin, names, n):
    """Reference on row ids. tin: dict name -> list of cells."""
    o = op["op"]
    if o == "filter":
        return [i for i in range(n) if op["mask"][i]]
    if o == "filter_out":
        return [i for i in range(n) if not op["mask"][i]]
    if o in ("filter_eq", "filter_out_eq"):
        kind = op["_kind"]
        want = op["_value"]
        hit = []
        for i, c in enumerate(tin[op["col"]]):
            if c is None:
                m = False
            elif kind in ("D", "s", "ms", "us", "ns"):
                m = np.datetime64(c) == want
            else:
                m = (c == want)
            hit.append(bool(m))
        return [i for i in range(n) if hit[i] == (o == "filter_eq")]
    if o in ("filter_eq2", "filter_out_eq2"):
        kind = op["_kind"]
        want = op["_value"]
        hit = []
        for i, c in enumerate(tin[op["col"]]):
            m = c is not None and (np.datetime64(c) == want if kind in ("D", "s", "ms", "us", "ns") else c == want)
            hit.append(bool(m) and tin[op["col2"]][i] == op["value2"])
        return [i for i in range(n) if hit[i] == (o == "filter_eq2")]
    if o == "slice":
        if op.get("rows") is None:
            return list(range(n))
        return [i % n if n else i for i in op["rows"]]
    if o == "slice_off":
        if op.get("rows") is None:
            return list(range(n))
        drop = {i % n for i in op["rows"]} if n else set()
        return [i for i in range(n) if i not in drop]
    if o == "head":
        m = 10 if op["n"] is None else op["n"]
        return list(range(min(m, n)))
    if o == "tail":
        m = 10 if op["n"] is None else op["n"]
        return list(range(n - min(m, n), n))
    if o == "drop_na":
        return [i for i in range(n) if not any(tin[c][i] is None for c in op["cols"])]
    if o == "sample":
        return sorted(op["answer"])
    if o in ("unique", "unique_all"):
        seen = []
        keep = []
        for i in range(n):
            key = tuple(tin[c][i] for c in op["cols"])
            if not any(all(V.key_eq(a, b) for a, b in zip(key, s)) for s in seen):
                seen.append(key)
                keep.append(i)
        return keep
    raise ValueError(o)


def apply(d, op, n, kinds):
    o = op["op"]
    if o in ("filter", "filter_out"):
        f = getattr(d, o)
        mask = op["mask"]
        if op["form"] == "vector":
            return f(di.Vector(np.array(mask, dtype=bool)))
        if op["form"] == "callable":
            return f(lambda x: di.Vector(np.array(mask, dtype=bool)))
        if op["form"] == "int01":
            return f(np.array(mask, dtype="int64"))  # a 0/1 flag column used as the condition
        if op["form"] == "intlist":
            return f([int(m) for m in mask])
        return f(list(mask))
    if o == "filter_eq":
        return d.filter(**{op["col"]: op["_value"]})
    if o == "filter_out_eq":
        return d.filter_out(**{op["col"]: op["_value"]})
    if o == "filter_eq2":
        return d.filter(**{op["col"]: op["_value"], op["col2"]: op["value2"]})
    if o == "filter_out_eq2":
        return d.filter_out(**{op["col"]: op["_value"], op["col2"]: op["value2"]})
    if o in ("slice", "slice_off"):
        kw = {}
        if op.get("rows") is not None:
            kw["rows"] = op["rows"]
        if op.get("cols") is not None:
            kw["cols"] = op["cols"]
        return getattr(d, o)(**kw)
    if o in ("head", "tail"):
        return getattr(d, o)() if op["n"] is None else getattr(d, o)(op["n"])
    if o == "drop_na":
        return d.drop_na(*op["cols"])
    if o == "sample":
        seam = ChoiceSeam(n, op["answer"])
        orig = np.random.choice
        np.random.choice = seam
        try:
            out = d.sample() if op["n"] is None else d.sample(op["n"])
        finally:
            np.random.choice = orig
        op["_seam_hit"] = seam.hit
        return out
    if o == "unique":
        return d.unique(*op["cols"])
    if o == "unique_all":
        return d.select(*op["cols"]).unique()
    raise ValueError(o)


def check_case(case, rec):
    cols = case["cols"]
    names = [c[0] for c in cols]
    kinds = {c[0]: c[1] for c in cols}
    n = len(cols[0][2])
    try:
        d = V.frame(cols)
        if case.get("grouped"):
            d.group_by(cols[0][0])  # a frame on which group_by was called earlier is a frame too (the mark stays on the object)
        before = V.frame_key(d)
        tin = {name: V.cells(d[name]) for name in names}
        tk = {name: [V.tok(x) for x in tin[name]] for name in names}
        dts = {name: str(d[name].dtype) for name in names}
    except Exception as e:  # building the operand is not what is under test
        raise RuntimeError(f"harness could not build frame {cols!r}: {e!r}")
    rec.state(before)
    keytoks = cols[0][2]
    nontrivial = n >= 2 and (None in keytoks or len(set(keytoks)) < len(keytoks))
    for op in case["ops"]:
        op = dict(op)
        if op["op"] in ("filter_eq", "filter_out_eq", "filter_eq2", "filter_out_eq2"):
            op["_kind"] = kinds[op["col"]]
            op["_value"] = decode_value(op.get("vkind") or kinds[op["col"]], op["value"])
        public = {k: v for k, v in op.items() if not k.startswith("_")}
        rec.case((before, repr(public)), nontrivial)
        rec.trans()
        want = expected_ids(op, tin, names, n)
        outnames = names
        if op.get("cols") is not None and op["op"] == "slice":
            outnames = [names[i] for i in op["cols"]]
        elif op.get("cols") is not None and op["op"] == "slice_off":
            outnames = [nm for i, nm in enumerate(names) if i not in op["cols"]]
        elif op["op"] == "unique_all":
            outnames = list(op["cols"])
        one = {"cols": cols, "ops": [public]}
        if case.get("grouped"):
            one["grouped"] = True
        if op.get("reject"):
            try:
                out = apply(d, op, n, kinds)
            except Exception:
                rec.outcome((op["op"], "rejected"))
            else:
                rec.violation(op["op"], "nonexistent-position-accepted", one,
                              f"rows {op['rows']} of a {n}-row frame: returned {out.nrow} row(s) instead of refusing the position")
            if V.frame_key(d) != before:
                rec.violation(op["op"], "receiver-changed", one, "receiver changed by a refused call")
                return
            continue
        try:
            out = apply(d, op, n, kinds)
        except Exception as e:
            rec.violation(op["op"], "raised", one, f"{type(e).__name__}: {e}; expected rows {want}")
            continue
        try:
            rec.state(V.frame_key(out))
            got_names = list(out.keys())
            if got_names != outnames:
                rec.violation(op["op"], "columns", one, f"columns {got_names} expected {outnames}")
                continue
            bad = None
            for name in outnames:
                key = V.col_key(out[name])
                exp = (dts[name], tuple(tk[name][i] for i in want))
                if key != exp:
                    bad = f"column {name!r}: got {key} expected {exp} (rows {want})"
                    break
            if bad:
                rec.violation(op["op"], "rows", one, bad)
                continue
            if op["op"] == "sample" and not op.get("_seam_hit") and n > 0:
                rec.count("sample_seam_not_hit")
            rec.outcome((op["op"], tuple(want)))
            if V.frame_key(d) != before:
                rec.violation(op["op"], "receiver-changed", one, "receiver changed by a subsetting call")
                return
        except Exception as e:
            rec.violation(op["op"], "malformed-result", one, f"{type(e).__name__}: {e}")
    rec.sample({"cols": cols, "ops": case["ops"][:1] + case["ops"][-1:]})


def long_ops(n):
    ops = unique_ops(["k"]) + [{"op": "drop_na", "cols": ["k"]}, {"op": "drop_na", "cols": ["k", "q"]}]
    ops += [{"op": "head", "n": m} for m in (None, n - 1, n, n + 1)] + [{"op": "tail", "n": m} for m in (None, 1, n - 1, n + 1)]
    ops += [{"op": "slice", "rows": [n - 1, 0, n // 2]}, {"op": "slice_off", "rows": [0, n - 1]},
            {"op": "filter", "mask": [i % 3 == 0 for i in range(n)], "form": "vector"},
            {"op": "filter_out", "mask": [i % 3 == 0 for i in range(n)], "form": "list"}]
    return ops


WIDE_KINDS = ["i8", "str", "f8", "D", "b1", "U", "u1", "us"]


def wide_payload(ncol, rows):
    cols = []
    for j in range(ncol):
        kind = WIDE_KINDS[j % len(WIDE_KINDS)]
        alpha = V.alphabet(kind, "quick")
        cols.append([f"w{j:03d}", kind, [alpha[(i * 3 + j) % len(alpha)] for i in range(rows)]])
    return cols


def run_shard(shard, rec):
    if shard["part"] == "wide":
        alpha = V.alphabet(shard["kind"], "key")
        for toks in V.seqs(alpha, 0, 3):
            m = len(toks)
            cols = [["k", shard["kind"], list(toks)]] + payload_cols(m) + wide_payload(shard["ncol"], m)
            ops = long_ops(m) if m else [{"op": "head", "n": 1}, {"op": "unique", "cols": ["k"]}]
            ops += [{"op": "drop_na", "cols": ["k", "w001", "w002"]}, {"op": "unique", "cols": ["k", "w000"]},
                    {"op": "slice", "rows": None, "cols": [len(cols) - 1, 0, 1]}, {"op": "slice_off", "rows": None, "cols": [0, len(cols) - 1]}]
            check_case({"cols": cols, "ops": ops}, rec)
        return
    if shard["part"] == "long":
        kind, length = shard["kind"], shard["length"]
        alpha = V.alphabet(kind, "key")
        j = -1
        for p in range(1, shard.get("maxperiod", 3) + 1):
            for pat in itertools.product(alpha, repeat=p):
                j += 1
                if shard.get("only") is not None and shard["only"] != j:
                    continue
                # the pattern fills the frame except the last row, which repeats the first key: a late first occurrence / duplicate
                toks = [pat[i % p] for i in range(length)]
                late = [alpha[-1]] * (length - 1) + [alpha[0 if alpha[0] is not None else 1]]
                for t in (toks, late if p == 1 and pat == (alpha[-1],) else None):
                    if t is None:
                        continue
                    cols = [["k", kind, t]] + payload_cols(length)
                    check_case({"cols": cols, "ops": long_ops(length)}, rec)
        return
    if shard["part"] == "single":
        kind, tier, n = shard["kind"], shard["tier"], shard["n"]
        alpha = shard.get("alpha") or V.alphabet(kind, tier)
        if shard["first"] is None:
            it = V.seqs(alpha, 0, n)
        else:
            it = ((alpha[shard["first"]],) + rest for rest in itertools.product(alpha, repeat=n - 1))
        for toks in it:
            toks = list(toks)
            m = len(toks)
            cols = [["k", kind, toks]] + (numeric_payload(m) if shard.get("numeric") else payload_cols(m))
            # full index/column space on frames whose key is the alphabet prefix (one per length)
            full = toks == list(alpha[:m]) or m <= 2
            ops = ops_for(cols, full) + unique_ops(["k"])
            if "alpha" in shard and not shard.get("numeric"):
                # a NUL-terminated string as the comparison SCALAR of filter(col=value) is trimmed by NumPy's own
                # scalar conversion (np.asarray("a\x00") is 'a'): not explored; the column values are what matters here
                ops = [o for o in ops if not str(o.get("value", "")).endswith("\x00")]
            check_case({"cols": cols, "ops": ops}, rec)
            if 1 <= m <= 2:
                check_case({"cols": cols, "ops": ops, "grouped": True}, rec)
    else:
        k1, k2, n = shard["k1"], shard["k2"], shard["n"]
        a1, a2 = shard.get("alphas") or (V.alphabet(k1, "key"), V.alphabet(k2, "key"))
        for m in range(0, n + 1):
            for t1 in itertools.product(a1, repeat=m):
                for t2 in itertools.product(a2, repeat=m):
                    cols = [["k", k1, list(t1)], ["k2", k2, list(t2)]] + payload_cols(m)
                    ops = unique_ops(["k", "k2"])
                    ops += [{"op": "drop_na", "cols": s} for s in (["k"], ["k2"], ["k", "k2"], ["k2", "q"])]
                    check_case({"cols": cols, "ops": ops}, rec)


def classify(v):
    return None
