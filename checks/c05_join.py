# -*- coding: utf-8 -*-
"""
C05 - joins follow first-match relational semantics and never lose rows.

E1: all pairs (L, R) of frames whose key column(s) range over all sequences of
0..N rows over {NA, k1, k2(, k3)} for every key kind (duplicates and missing
keys on both sides arise by enumeration), same-name and (left, right) renamed
keys, one- and two-column keys, R carrying payload columns of every dtype plus
a column whose name clashes with a left column, x the five join kinds.
Oracle: nested-loop reference over row ids (first right row whose key columns
are all equal and non-missing); full_join is checked as a relation.
"""

import itertools

import dataiter as di
from mc import values as V

ID = "C05"
TITLE = "Joins follow first-match relational semantics and never lose rows"
RULE = ("cases = (left frame, right frame, key spec, join kind) enumerated exhaustively; distinct = digest of (both frames, by, kind); "
        "non-trivial = both sides non-empty and some key is duplicated or missing on either side")
ASSUMPTIONS = [
    "key values outside the alphabets and frames longer than the row bound are not explored",
    "key columns of different type on the two sides: equal instants held in different datetime64 units are not explored (NumPy 2.0 hashes datetime64 scalars per unit)",
    "key columns have the same kind on both sides, except for six cross-type pairs (int64/float64 both ways, date/datetime both ways, bool/int64, int64/uint8)",
    "which matched pair full_join forms beyond 'every left and right row at least once, never unequal keys' is not pinned (DESIGN 3.1)",
]
BOUND = {
    "quick": "one key: rows 0..3 a side over {NA,k1,k2} (40x40 pairs) for 15 key kinds (incl. marker-like text, dates outside the nanosecond range, the ends of int64) x {same-name, renamed} x 5 joins; 6 pairs of key columns of different type on the two sides, rows 0..3 a side; two keys: rows 0..2 a side over {NA,lo,hi}^2 (91x91 pairs) for 4 kind pairs x 5 joins",
    "thorough": "one key: rows 0..3 a side over {NA,k1,k2,k3} (85x85 pairs) and rows 0..4 over {NA,k1,k2} (121x121) for 15 key kinds x {same-name, renamed} x 5 joins; 6 cross-type key pairs, rows 0..3 a side; two keys: rows 0..2 a side for 8 kind pairs",
}
TIME_CAP = {"quick": 480, "thorough": 3000}

JOINS = ["left_join", "inner_join", "semi_join", "anti_join", "full_join"]
KEY_ALPHA = {
    "f8": [None, "1.0", "2.0", "-inf"],
    "f8z": [None, "-0.0", "0.0", "9007199254740992.0"],
    "f8c": [None, "0.3", "0.30000000000000004", "0.1"],   # 0.1 + 0.2 is not 0.3: keys one ulp apart are different keys
    "ns": [None, "2020-02-29T23:59:59.999999001", "2020-02-29T23:59:59.999999002", "1969-12-31T23:59:59.999999999"],
    "i8": [0, 1, 2, 9007199254740993],
    "b1": [False, True],
    "str": [None, "a", "A", "e\u0301"],   # 'A' folds to 'a'; 'e'+combining acute is not the letter U+00E9 (no normalisation)
    "U": [None, "a", "b", "ab"],
    "D": [None, "1970-01-01", "2020-02-29", "1969-12-31"],
    "us": [None, "1970-01-01T00:00:00", "2020-02-29T23:59:59.999999", "1969-12-31T23:59:59"],
    "obj": [None, 1, 2, 3],
    "td": [None, "1", "3", "-2"],
    "strm": [None, "nan", "None", " a"],   # text that looks like a missing marker; a leading blank
    "Dx": [None, "0001-01-01", "9999-12-31", "1677-09-21"],   # dates outside the range of nanosecond datetimes
    "i8x": [0, -9223372036854775808, 9223372036854775807, -1],   # the ends of the int64 range
}
KINDS_Q = ["f8", "f8z", "f8c", "i8", "b1", "str", "U", "D", "us", "ns", "td", "obj", "strm", "Dx", "i8x"]
KINDS_T = ["f8", "f8z", "f8c", "i8", "b1", "str", "U", "D", "us", "ns", "td", "obj", "strm", "Dx", "i8x"]
PAIRS_Q = [("f8", "str"), ("str", "D"), ("i8", "f8"), ("D", "obj")]
PAIRS_T = PAIRS_Q + [("U", "us"), ("b1", "str"), ("f8", "f8"), ("str", "str")]


CROSS = [
    ("i8", "f8", [0, 1, 9007199254740993], [None, "1.0", "9007199254740992.0"], False),
    ("f8", "i8", [None, "1.0", "9007199254740992.0"], [0, 1, 9007199254740993], False),
    ("D", "us", [None, "2020-02-29", "2020-03-01"], [None, "2020-02-29T12:30:00", "2020-03-01T00:00:01"], True),
    ("us", "D", [None, "2020-02-29T12:30:00", "2020-03-01T00:00:01"], [None, "2020-02-29", "2020-03-01"], True),
    ("b1", "i8", [False, True], [0, 1, 2], True),
    ("i8", "u1", [0, 5, -1], [0, 5, 200], True),
]


def real_kind(k):
    return "f8" if k in ("f8z", "f8c") else {"strm": "str", "Dx": "D", "i8x": "i8"}.get(k, k)


def shards(tier):
    out = []
    kinds = KINDS_Q if tier == "quick" else KINDS_T
    for kind in kinds:
        for renamed in (False, True):
            if tier == "quick":
                out.append({"part": "one", "kind": kind, "renamed": renamed, "asize": 3, "n": 3, "lfirst": None})
                if kind == "i8" and not renamed:
                    # integer keys that are unique and span exactly nrow - 1 without being a running number: 0, 2**53+1, 2
                    for lf in range(4):
                        out.append({"part": "one", "kind": kind, "renamed": renamed, "asize": 4, "n": 3, "lfirst": lf})
            else:
                a = KEY_ALPHA[kind]
                for lf in range(len(a)):
                    out.append({"part": "one", "kind": kind, "renamed": renamed, "asize": 4, "n": 3, "lfirst": lf})
                out.append({"part": "one", "kind": kind, "renamed": renamed, "asize": 4, "n": 2, "lfirst": None})
                for lf in range(min(3, len(a))):
                    out.append({"part": "one", "kind": kind, "renamed": renamed, "asize": 3, "n": 4, "lfirst": lf, "only_len": 4})
    for k1, k2 in (PAIRS_Q if tier == "quick" else PAIRS_T):
        for mode in ("same", "mixed"):
            for lf in range(len(V.alphabet(k1, "key"))):
                out.append({"part": "two", "kinds": [k1, k2], "mode": mode, "n": 2, "lfirst": lf})
            out.append({"part": "two", "kinds": [k1, k2], "mode": mode, "n": 1, "lfirst": None})
    # key columns of DIFFERENT type on the two sides: rows match where the values are equal (1 == 1.0; 2**53 + 1 is not
    # 2**53; a day is not an instant later on that day). Equal instants held in different datetime units are left out:
    # NumPy 2.0 hashes datetime64 per unit, so whether they meet in a lookup is NumPy's decision (ASSUMPTIONS).
    for lk, rk, la, ra, full in CROSS:
        for renamed in (False, True):
            out.append({"part": "cross", "lk": lk, "rk": rk, "la": la, "ra": ra, "full": full, "renamed": renamed, "n": 3})
    # size ladder: LONG right frames whose keys repeat (the FIRST of the equal-keyed right rows is the match, also where
    # a sort inside the lookup stops being stable: NumPy sorts up to 16 elements by insertion)
    for kind in ("i8", "f8", "D", "str", "us"):
        for length in ([17, 40, 130] if tier == "quick" else [17, 40, 130, 1025]):
            out.append({"part": "long", "kind": kind, "length": length})
    from mc import harness
    return harness.with_array_forms(out, tier, lambda sh: sh["part"] == "one" and sh["kind"] in ("f8", "str", "D") and not sh["renamed"]
                                    and sh.get("lfirst") in (None, 0) and sh["n"] <= 3 and sh.get("asize", 3) == (3 if tier == "quick" else 4))


def left_cols(keycols, n):
    p = [("L" + str(i)) if i % 2 == 0 else None for i in range(n)]
    return keycols + [["id", "i8", list(range(n))], ["p", "str", p]]


def right_cols(keycols, n):
    return keycols + [
        ["rid", "i8", list(range(n))],
        ["rb", "b1", [i % 2 == 0 for i in range(n)]],
        ["rs", "str", [None if i == 1 else "R" + str(i) for i in range(n)]],
        ["rd", "D", ["2001-01-0" + str(i + 1) for i in range(n)]],
        ["rt", "td", [str(i + 1) for i in range(n)]],   # durations: an integer subtype for NumPy, with NaT as missing value
        ["p", "str", ["clash" + str(i) for i in range(n)]],
        # right-hand columns named like DataFrame / dict attributes are ordinary columns too
        ["count", "i8", [40 + i for i in range(n)]],
        ["values", "f8", [repr(i + 0.25) for i in range(n)]],
    ]


def first_match(lkeys, rkeys_rows):
    if any(k is None for k in lkeys):
        return None
    for r, rk in enumerate(rkeys_rows):
        if all(b is not None and a == b for a, b in zip(lkeys, rk)):
            return r
    return None


def col_eq_rows(out_col, src_cells, src_dtype, ids):
    return V.col_key(out_col) == (src_dtype, tuple(V.tok(src_cells[i]) for i in ids))


class Rec_proxy:
    """Forwards to the shard recorder but reports violations of the in-place phase with the whole two-phase case."""

    def __init__(self, rec, case):
        self.rec, self.case2 = rec, case

    def __getattr__(self, name):
        return getattr(self.rec, name)

    def violation(self, op, clause, case, detail="", cls=None):
        return self.rec.violation(op, "after-in-place-edit-of-right:" + clause, self.case2, detail, cls)


def check_case(case, rec):
    Lc, Rc, by = case["L"], case["R"], case["by"]
    L = V.frame(Lc)
    R = V.frame(Rc)
    if case.get("grouped"):
        # frames on which group_by was called earlier are frames too (the mark stays on the object)
        L.group_by(Lc[0][0])
        R.group_by(Rc[case.get("rkey_at", 0)][0])
    check_joins_on(L, R, Lc, Rc, by, case["joins"], rec, case)


def check_joins_on(L, R, Lc, Rc, by, joins, rec, case=None):
    case = case or {"joins": joins}
    pair = tuple if case.get("pair_form", "tuple") == "tuple" else list
    by_arg = [pair(b) if isinstance(b, list) else b for b in by]
    lk = [b if isinstance(b, str) else b[0] for b in by]
    rk = [b if isinstance(b, str) else b[1] for b in by]
    lb, rb = V.frame_key(L), V.frame_key(R)
    rec.state(lb)
    rec.state(rb)
    lnames, rnames = [c[0] for c in Lc], [c[0] for c in Rc]
    nl, nr = len(Lc[0][2]), len(Rc[0][2])
    lc = {n: V.cells(L[n]) for n in lnames}
    rc = {n: V.cells(R[n]) for n in rnames}
    ldt = {n: str(L[n].dtype) for n in lnames}
    lrows = [tuple(lc[k][i] for k in lk) for i in range(nl)]
    rrows = [tuple(rc[k][i] for k in rk) for i in range(nr)]
    match = [first_match(lrows[i], rrows) for i in range(nl)]
    extras = [n for n in rnames if n not in rk and n not in lnames]
    allk = lrows + rrows
    nontrivial = nl > 0 and nr > 0 and (any(None in t for t in allk) or len(set(map(repr, lrows))) < nl or len(set(map(repr, rrows))) < nr)
    for join in joins:
        rec.case((lb, rb, repr(by), join), nontrivial)
        rec.trans()
        one = {"L": Lc, "R": Rc, "by": by, "joins": [join]}
        if case.get("grouped"):
            one["grouped"] = True
        if case.get("pair_form"):
            one["pair_form"] = case["pair_form"]
        try:
            out = getattr(L, join)(R, *by_arg)
        except Exception as e:
            rec.violation(join, "raised", one, f"{type(e).__name__}: {e}")
            continue
        try:
            rec.state(V.frame_key(out))
            names = list(out.keys())
            msg = None
            if join in ("semi_join", "anti_join"):
                want = [i for i in range(nl) if (match[i] is not None) == (join == "semi_join")]
                if names != lnames:
                    msg = f"columns {names} expected {lnames}"
                else:
                    for n in lnames:
                        if not col_eq_rows(out[n], lc[n], ldt[n], want):
                            msg = f"column {n!r} = {V.col_key(out[n])}; expected left rows {want}"
                            break
                outcome = tuple(want)
            elif join in ("left_join", "inner_join"):
                want = list(range(nl)) if join == "left_join" else [i for i in range(nl) if match[i] is not None]
                if names != lnames + extras:
                    msg = f"columns {names} expected {lnames + extras}"
                else:
                    for n in lnames:
                        if not col_eq_rows(out[n], lc[n], ldt[n], want):
                            msg = f"left column {n!r} = {V.col_key(out[n])}; expected left rows {want} unchanged"
                            break
                    if msg is None:
                        for n in extras:
                            got = V.cells(out[n])
                            na = V.na_mask(out[n])
                            if len(got) != len(want):
                                msg = f"column {n!r} has {len(got)} rows, expected {len(want)}"
                                break
                            for pos, i in enumerate(want):
                                r = match[i]
                                if r is None:
                                    if not na[pos]:
                                        msg = f"column {n!r} row {pos}: no match for left row {i} but value {got[pos]!r} (dtype {out[n].dtype}) is not missing"
                                        break
                                elif not V.same_value(got[pos], rc[n][r]):
                                    msg = f"column {n!r} row {pos}: left row {i} first-matches right row {r} ({rc[n][r]!r}) but got {got[pos]!r}"
                                    break
                            if msg:
                                break
                outcome = tuple(match[i] for i in want)
            else:  # full_join: checker
                if names != lnames + extras:
                    msg = f"columns {names} expected {lnames + extras}"
                else:
                    oc = {n: V.cells(out[n]) for n in names}
                    m = len(oc["id"])
                    seen_l, seen_r = set(), set()
                    for pos in range(m):
                        i, r = oc["id"][pos], oc["rid"][pos]
                        i = None if i is None else int(i)
                        r = None if r is None else int(r)
                        if i is None and r is None:
                            msg = f"row {pos} carries neither a left nor a right row"
                            break
                        if (i is not None and not 0 <= i < nl) or (r is not None and not 0 <= r < nr):
                            msg = f"row {pos}: unknown row ids left {i} right {r}"
                            break
                        if i is not None and r is not None:
                            if any(a is None or b is None or a != b for a, b in zip(lrows[i], rrows[r])):
                                msg = f"row {pos} pairs left row {i} keys {lrows[i]} with right row {r} keys {rrows[r]}"
                                break
                        whole_left = i is not None
                        for n in lnames:
                            allowed = []
                            if i is not None:
                                allowed.append(lc[n][i])
                            if r is not None:
                                if n in lk:
                                    allowed.append(rc[rk[lk.index(n)]][r])
                                elif n in rc:
                                    # a right row paired late (or right-only) may show its own same-named column
                                    allowed.append(rc[n][r])
                            if not allowed:
                                allowed.append(None)
                            if not any(V.same_value(oc[n][pos], a) for a in allowed):
                                msg = f"row {pos} (left {i}, right {r}): column {n!r} is {oc[n][pos]!r}, expected one of {allowed!r}"
                                break
                            if i is not None and not V.same_value(oc[n][pos], lc[n][i]):
                                whole_left = False
                        if msg:
                            break
                        for n in extras:
                            want = rc[n][r] if r is not None else None
                            if not V.same_value(oc[n][pos], want):
                                msg = f"row {pos} (left {i}, right {r}): column {n!r} is {oc[n][pos]!r}, expected {want!r}"
                                break
                        if msg:
                            break
                        if whole_left:
                            seen_l.add(i)
                        if r is not None:
                            seen_r.add(r)
                    if msg is None and seen_l != set(range(nl)):
                        msg = f"left rows {sorted(set(range(nl)) - seen_l)} do not occur with all their own values"
                    if msg is None and seen_r != set(range(nr)):
                        msg = f"right rows {sorted(set(range(nr)) - seen_r)} lost"
                    if msg is None:
                        # exactly-once for left rows whose match is unique by the first-match rule is not pinned; at-least-once is
                        pass
                    outcome = (len(oc["id"]), len(seen_l), len(seen_r)) if msg is None else None
            if msg:
                rec.violation(join, "relation", one, msg)
                continue
            rec.outcome((join, outcome))
            if V.frame_key(L) != lb or V.frame_key(R) != rb:
                rec.violation(join, "operand-changed", one, "an operand was changed by the join")
                return
        except Exception as e:
            rec.violation(join, "malformed-result", one, f"{type(e).__name__}: {e}")
    # semi/anti partition the left frame: implied by the two checks above (both compared with the same match vector)
    rec.sample({"L": Lc, "R": Rc, "by": by, "joins": case["joins"][:1]})
    # second phase (skipped inside itself): the same right-hand OBJECT, edited in place, must be joined as it is now
    if case.get("poke") and nr >= 2 and len(rk) == 1 and not V.same_value(rc[rk[0]][0], rc[rk[0]][nr - 1]):
        # prime: the last thing done with R before the edit is a join against R itself (anything a join
        # remembers about its right-hand operand is stale afterwards)
        try:
            getattr(L, "semi_join")(R, *[tuple(b) if isinstance(b, list) else b for b in by])
        except Exception as e:
            rec.violation("semi_join", "raised", {"L": Lc, "R": Rc, "by": by, "joins": ["semi_join"]}, f"{type(e).__name__}: {e}")
            return
        col = R[rk[0]]
        col[0] = col[nr - 1]
        toks = list(Rc[0][2])
        toks[0] = toks[nr - 1]
        R2c = [[Rc[0][0], Rc[0][1], toks]] + [list(c) for c in Rc[1:]]
        sub = Rec_proxy(rec, {"L": Lc, "R": Rc, "by": by, "joins": case["joins"], "poke": True})
        check_joins_on(L, R, Lc, R2c, by, ["left_join", "semi_join", "anti_join", "inner_join"], sub)


def run_shard(shard, rec):
    if shard["part"] == "one":
        kind = shard["kind"]
        alpha = KEY_ALPHA[kind][:shard["asize"]]
        rkind = real_kind(kind)
        n = shard["n"]
        rname = "rk" if shard["renamed"] else "k"
        by = [["k", "rk"]] if shard["renamed"] else ["k"]
        lens = [shard["only_len"]] if shard.get("only_len") else list(range(0, n + 1))
        rseqs = [list(t) for t in V.seqs(alpha, 0, n)]
        for m in lens:
            for lt in itertools.product(alpha, repeat=m):
                if shard["lfirst"] is not None and (m != n or lt[0] != alpha[shard["lfirst"]]):
                    continue
                for rt in rseqs:
                    case = {"L": left_cols([["k", rkind, list(lt)]], m),
                            "R": right_cols([[rname, rkind, rt]], len(rt)),
                            "by": by, "joins": JOINS, "poke": True}
                    check_case(case, rec)
                    if m <= 2 and len(rt) <= 2:
                        # a right frame whose ONLY column is the key: a match that brings no column is still a match
                        check_case({"L": case["L"], "R": [[rname, rkind, rt]], "by": by, "joins": JOINS[:-1]}, rec)
                        check_case(dict(case, grouped=True, poke=False), rec)
                        if shard["renamed"]:
                            check_case(dict(case, pair_form="list", poke=False), rec)
                            # the right frame has an ORDINARY column named like the left key (listed after, and before, its own key)
                            own = [["k", rkind, [alpha[-1 - (i % 2)] for i in range(len(rt))]]]
                            check_case(dict(case, R=case["R"] + own, poke=False), rec)
                            check_case(dict(case, R=own + case["R"], poke=False, rkey_at=1), rec)
    elif shard["part"] == "long":
        kind, length = shard["kind"], shard["length"]
        alpha = KEY_ALPHA[kind][:4]
        vals = [t for t in alpha if t is not None]
        left = vals + ([None] if None in alpha else []) + vals[:1]
        for period in (2, 3, 5):
            for pat in itertools.product(alpha, repeat=min(period, 3)):
                if len(set(pat)) < 2:
                    continue
                pat = list(pat) + [pat[0]] * (period - len(pat))
                rt = [pat[i % period] for i in range(length)]
                for renamed in (False, True):
                    rname = "rk" if renamed else "k"
                    Rc = [[rname, kind, rt], ["rid", "i8", list(range(length))], ["rs", "str", [None if i % 7 == 1 else "R" + str(i) for i in range(length)]]]
                    check_case({"L": left_cols([["k", kind, left]], len(left)), "R": Rc, "by": [["k", "rk"]] if renamed else ["k"], "joins": JOINS}, rec)
        rec.sample({"part": "long", "kind": kind, "length": length})
    elif shard["part"] == "cross":
        n = shard["n"]
        rname = "rk" if shard["renamed"] else "k"
        by = [["k", "rk"]] if shard["renamed"] else ["k"]
        joins = JOINS if shard["full"] else JOINS[:-1]
        rseqs = [list(t) for t in V.seqs(shard["ra"], 0, n)]
        for lt in V.seqs(shard["la"], 0, n):
            for rt in rseqs:
                check_case({"L": left_cols([["k", shard["lk"], list(lt)]], len(lt)),
                            "R": right_cols([[rname, shard["rk"], rt]], len(rt)), "by": by, "joins": joins}, rec)
    else:
        k1, k2 = shard["kinds"]
        a1, a2 = V.alphabet(k1, "key"), V.alphabet(k2, "key")
        n = shard["n"]
        if shard["mode"] == "same":
            rn1, rn2, by = "k1", "k2", ["k1", "k2"]
        else:
            rn1, rn2, by = "k1", "rk2", ["k1", ["k2", "rk2"]]
        rows = list(itertools.product(a1, a2))
        rseqs = [list(t) for t in V.seqs(rows, 0, 2)]
        for m in range(0, n + 1):
            for lt in itertools.product(rows, repeat=m):
                if shard["lfirst"] is not None and (m != n or lt[0][0] != a1[shard["lfirst"]]):
                    continue
                for rt in rseqs:
                    case = {"L": left_cols([["k1", k1, [x[0] for x in lt]], ["k2", k2, [x[1] for x in lt]]], m),
                            "R": right_cols([[rn1, k1, [x[0] for x in rt]], [rn2, k2, [x[1] for x in rt]]], len(rt)),
                            "by": by, "joins": JOINS}
                    check_case(case, rec)


def classify(v):
    return None
