# -*- coding: utf-8 -*-
"""
C14 - restricting or aliasing a read never changes what is read.

E1 over configurations. The check writes its own small files (several tables
per format, with plain Python / pyarrow / numpy writers, never with dataiter's
writers) into the scratch directory and then

(restrict)  for every reader that takes a column/key restriction and a
            dtype/type map, every file of its format, every ordered selection
            S of the file's columns/keys (including "none given") and every
            map M from the bounded cast menu (none, one column, two columns;
            names of M inside S): read(path, S, M) must equal read(path), then
            select S, then cast M - compared as name -> values maps, so every
            value has to sit under its own name whatever order S was given in.
            The reference select/cast is plain Python over the cells of the
            unrestricted read.

(alias)     for every module-level alias di.read_X: the keyword arguments are
            taken by introspection from the alias AND from the class method;
            every combination of {default, registered non-default value(s)}
            per keyword is passed to both, for every file of the format; the
            two calls must return the same object state (type, names in order,
            dtypes, cells, metadata) or raise the same exception.

(signature) a keyword of an alias (or of its class method) that has no
            registered non-default domain is reported as 'uncovered', so a new
            keyword cannot slip past the enumeration.
"""

import datetime
import hashlib
import inspect
import itertools
import json
import os
import tempfile

import numpy as np

import dataiter as di
from dataiter import DataFrame, GeoJSON, ListOfDicts
from mc import values as V

ID = "C14"
TITLE = "Restricting or aliasing a read never changes what is read"
RULE = ("cases = (reader, file, ordered selection S, cast map M) and (alias, file, keyword combination), enumerated "
        "exhaustively; distinct = digest of (reader/alias, file spec, arguments); non-trivial = a restriction that is "
        "not 'none given in file order' or a non-empty map (restrict part), at least one non-default keyword (alias part)")
ASSUMPTIONS = [
    "files are the small tables written by the check (1-5 columns, 0-3 rows, one missing value, ragged JSON keys, "
    "headerless / ';' / tab separated / latin-1 / utf-16 CSV variants); compressed files are C12's subject and not varied here",
    "a map M only names columns inside S, and S only names columns of the file (a name outside is unspecified: some readers raise, some ignore)",
    "casts are taken from a menu that is unambiguous for the column as read: no cast of a column holding a missing value to a dtype "
    "that cannot hold one (DESIGN 3.5), no float->str where the float may be an int-with-missing, no ListOfDicts type whose "
    "application raises on a value of the file; the reference cast is float()/int()/str()/bool()/fromisoformat on non-missing cells, missing stays missing",
    "column order of a restricted DataFrame read and key order inside ListOfDicts items are not pinned (name->values maps are compared); "
    "the geometry column of a GeoJSON may be present although not requested",
    "alias equality is compared on observable state (type, names in order, dtypes, cells, metadata) and on (exception type, message)",
    "pyarrow's CSV/Parquet readers, json and numpy.load are the trusted base",
]
BOUND = {
    "quick": "tables T0..T4 (<= 4 columns, <= 3 rows) per format incl. ragged JSON and headerless/';'/latin-1 CSV; all ordered selections "
             "(<= 65 per file); maps: none, every single (column, cast) and every two-column map over the first 2 casts of each column's menu; "
             "aliases: all 2^k combinations of {default, 1 non-default} per keyword on every file of the format",
    "thorough": "tables T0..T5 (<= 5 columns: 326 ordered selections) and utf-16/tab CSV; full cast menus (<= 4 per column) for single maps, first 2 for pairs; "
                "aliases: every combination of {default} + 2-3 non-default values per keyword on every file of the format",
}
TIME_CAP = {"quick": 240, "thorough": 1800}
BOUND["quick"] += '; ListOfDicts readers also on a JSON file whose key holds equal values of different types (10, 10.0, true, 1, 0, 0.0) and a CSV file whose header repeats a name; first 3 casts per menu; a JSON file whose missing numbers and booleans are the literal NaN; whole numbers next to a missing value asked for as int'
BOUND["thorough"] += "; plus the additions listed for the quick tier"

# ---------------------------------------------------------------------------
# tables and files (everything JSON-able; a case carries its file spec)

TABLES = {
    "T1": [["a", "int", [5]]],
    "T2": [["n", "int", [1, None]], ["s", "str", ["é", "ü"]]],
    "T3": [["a", "int", [1, 2, 3]], ["b", "str", ["x", None, "z"]], ["c", "float", [1.5, 2.5, None]]],
    "T3r": [["c", "float", [0.5, None]], ["b", "str", ["u", "v"]], ["a", "int", [7, 8]]],
    "T0": [["a", "int", []], ["b", "str", []], ["c", "float", []]],
    # keys b and c are absent from the FIRST record when written ragged (a reader must not learn the key set from record 0)
    "T3f": [["a", "int", [1, 2, 3]], ["b", "str", [None, "y", "z"]], ["c", "float", [None, 2.5, None]]],
    # a date column in the quick tier too (casts between datetime units), and falsy values 0 / false that a cast must not skip
    "T7": [["t", "date", ["2020-02-29", "1970-01-01"]], ["n", "int", [0, 5]], ["e", "bool", [False, True]]],
    "T8n": [["n", "int", [1, None]], ["e", "bool", [True, None]], ["c", "float", [None, 1.5]]],
    "T4": [["a", "int", [0, 2, 3]], ["b", "str", ["x", None, "z"]], ["d", "str", ["7", "8", "9"]], ["e", "bool", [True, False, True]]],
    # JSON only: values that are objects / lists of objects whose own members are named like top-level keys
    "T6": [["id", "int", [7, 8]], ["host", "obj", [{"id": 1, "name": "h"}, {"name": "g", "tags": [{"id": 3, "x": 1}]}]], ["name", "str", ["p", "q"]]],
    # key names holding shell-pattern characters, next to names those patterns would match
    "T9": [["id", "int", [1, 2]], ["area[m2]", "float", [1.5, 2.5]], ["aream", "str", ["x", "y"]], ["ok?", "bool", [True, False]], ["oka", "int", [7, 8]]],
    "T5": [["a", "int", [1, 2]], ["b", "str", ["x", "y"]], ["c", "float", [1.5, None]],
           ["t", "date", ["2020-02-29", "1970-01-01"]], ["e", "bool", [True, None]]],
}
TABLE_ORDER = {"quick": ["T1", "T2", "T0", "T3", "T3f", "T3r", "T7", "T4", "T9"], "thorough": ["T1", "T2", "T0", "T3", "T3f", "T3r", "T7", "T4", "T9", "T5"]}


# files for the ListOfDicts readers only (a list of dicts holds whatever the file holds, key by key):
#  - JSON values of one key that are EQUAL across types (10 and 10.0, true and 1, 0 and 0.0): each is converted on its own
#  - a CSV header that names one column twice (an item keeps the LAST of the two, restricted or not)
LOD_ONLY_FILES = {
    "json": [{"fmt": "json", "cols": [["price", "obj", [10, 10.0, True, 1, 0, 0.0]], ["id", "int", [1, 2, 3, 4, 5, 6]]], "ragged": False, "encoding": "utf-8"}],
    "csv": [{"fmt": "csv", "cols": [["id", "int", [1, 2]], ["value", "str", ["x", "y"]], ["name", "str", ["p", "q"]], ["value", "str", ["u", "v"]]],
             "sep": ",", "header": True, "encoding": "utf-8"}],
}


def files_for(fmt, tier):
    """File specs of one format, smallest first."""
    out = []
    for t in TABLE_ORDER[tier] + (["T6"] if fmt == "json" else []):
        cols = TABLES[t]
        if fmt == "csv":
            out.append({"fmt": "csv", "cols": cols, "sep": ",", "header": True, "encoding": "utf-8"})
            if t in ("T2", "T3"):
                out.append({"fmt": "csv", "cols": cols, "sep": ";", "header": False, "encoding": "latin-1"})
            if t == "T3r":
                out.append({"fmt": "csv", "cols": cols, "sep": ";", "header": True, "encoding": "utf-8"})
                # the same numbers written as 007 / 8.0 / 0.50: casting what was read is not the same as taking the cell text
                out.append({"fmt": "csv", "cols": cols, "sep": ",", "header": True, "encoding": "utf-8",
                            "raw": {"a": ["007", "08"], "c": ["0.50", ""]}})
            if t == "T2" and tier == "thorough":
                out.append({"fmt": "csv", "cols": cols, "sep": "\t", "header": True, "encoding": "utf-16"})
        elif fmt in ("json", "geojson"):
            out.append({"fmt": fmt, "cols": cols, "ragged": False, "encoding": "utf-8"})
            if t in ("T3", "T3f", "T5"):
                out.append({"fmt": fmt, "cols": cols, "ragged": True, "encoding": "utf-8"})
            if t in ("T3", "T4"):
                out.append({"fmt": fmt, "cols": cols, "ragged": False, "permuted": True, "encoding": "utf-8"})
            if t == "T2":
                out.append({"fmt": fmt, "cols": cols, "ragged": False, "encoding": "latin-1"})
            if t == "T2" and fmt == "json":
                # missing numbers / booleans written as the literal NaN (Python's json module writes and reads it): a missing
                # value that arrives as a float, not as None (seeded C14-r12-1)
                out.append({"fmt": fmt, "cols": TABLES["T8n"], "ragged": False, "nanliteral": True, "encoding": "utf-8"})
        elif fmt == "parquet":
            out.append({"fmt": "parquet", "cols": cols})
        elif fmt == "npz":
            out.append({"fmt": "npz", "cols": cols, "objects": False})
            if t in ("T2", "T3"):
                out.append({"fmt": "npz", "cols": cols, "objects": True})
    return out


_DIR = None
_WRITTEN = {}


def scratch_dir():
    global _DIR
    want = os.path.join(os.environ["MC_SCRATCH"], f"c14-{os.getpid()}") if os.environ.get("MC_SCRATCH") else None
    if _DIR is None or (want and _DIR != want):
        _DIR = want or tempfile.mkdtemp(prefix="c14-")
        os.makedirs(_DIR, exist_ok=True)
        _WRITTEN.clear()
    return _DIR


def csv_text(f):
    def cell(v):
        if v is None:
            return ""
        if isinstance(v, bool):
            return "true" if v else "false"
        return str(v)
    cols = f["cols"]
    lines = []
    if f["header"]:
        lines.append(f["sep"].join(c[0] for c in cols))
    raw = f.get("raw") or {}
    for i in range(len(cols[0][2])):
        # "raw" gives the literal cell text of a column (numbers not written in their canonical form)
        lines.append(f["sep"].join(raw[c[0]][i] if c[0] in raw else cell(c[2][i]) for c in cols))
    return "".join(x + "\n" for x in lines)


def records(f):
    cols = f["cols"]
    out = []
    for i in range(len(cols[0][2])):
        item = {}
        for name, kind, vals in cols:
            if vals[i] is None and f.get("ragged"):
                continue
            item[name] = float("nan") if vals[i] is None and f.get("nanliteral") and kind in ("int", "float", "bool") else vals[i]
        if f.get("permuted") and i % 2 == 1:
            item = dict(reversed(list(item.items())))  # same keys, listed in another order than in the first record
        out.append(item)
    return out


def file_text(f):
    if f["fmt"] == "csv":
        return csv_text(f)
    if f["fmt"] == "json":
        return json.dumps(records(f), ensure_ascii=False)
    if f["fmt"] == "geojson":
        feats = [{"type": "Feature", "properties": p, "geometry": {"type": "Point", "coordinates": [i, i + 0.5]}}
                 for i, p in enumerate(records(f))]
        return json.dumps({"type": "FeatureCollection", "name": "tbl", "features": feats}, ensure_ascii=False)
    raise ValueError(f["fmt"])


def ensure_file(f):
    """Write the file described by spec f (once per process) and return its path."""
    d = scratch_dir()
    key = json.dumps(f, sort_keys=True)
    if key in _WRITTEN:
        return _WRITTEN[key]
    ext = {"csv": ".csv", "json": ".json", "geojson": ".geojson", "parquet": ".parquet", "npz": ".npz"}[f["fmt"]]
    path = os.path.join(d, hashlib.sha1(key.encode()).hexdigest()[:16] + ext)
    if f["fmt"] in ("csv", "json", "geojson"):
        with open(path, "wb") as fh:
            fh.write(file_text(f).encode(f["encoding"]))
    elif f["fmt"] == "parquet":
        import pyarrow as pa
        import pyarrow.parquet as pq
        types = {"int": pa.int64(), "float": pa.float64(), "str": pa.string(), "bool": pa.bool_(), "date": pa.date32()}
        arrays, names = [], []
        for name, kind, vals in f["cols"]:
            if kind == "date":
                vals = [None if v is None else datetime.date.fromisoformat(v) for v in vals]
            arrays.append(pa.array(vals, type=types[kind]))
            names.append(name)
        pq.write_table(pa.Table.from_arrays(arrays, names=names), path)
    elif f["fmt"] == "npz":
        arrs = {}
        for name, kind, vals in f["cols"]:
            if f["objects"] or (kind == "bool" and None in vals):
                a = np.empty(len(vals), dtype=object)
                for i, v in enumerate(vals):
                    a[i] = v
            elif kind == "int":
                a = np.array([np.nan if v is None else v for v in vals], dtype=float if None in vals else "int64")
            elif kind == "float":
                a = np.array([np.nan if v is None else v for v in vals], dtype=float)
            elif kind == "str":
                a = np.array(["" if v is None else v for v in vals], dtype=f"U{max([len(v or '') for v in vals] + [1])}")
            elif kind == "bool":
                a = np.array(vals, dtype=bool)
            elif kind == "date":
                a = np.array(["NaT" if v is None else v for v in vals], dtype="datetime64[D]")
            arrs[name] = a
        with open(path, "wb") as fh:
            np.savez(fh, **arrs)
    _WRITTEN[key] = path
    return path


def file_state_key(f):
    return ("file", json.dumps(f, sort_keys=True, ensure_ascii=True))


# ---------------------------------------------------------------------------
# readers

TYPES = {"float": float, "int": int, "str": str, "object": object, "bool": bool}
DTYPE_NAME = {"float": "float64", "int": "int64", "str": "string", "object": "object", "bool": "bool"}

READERS = {
    # reader -> (format, restriction keyword, map keyword, family)
    "DataFrame.read_csv": ("csv", "columns", "dtypes", "df"),
    "DataFrame.read_json": ("json", "columns", "dtypes", "df"),
    "DataFrame.from_json": ("json", "columns", "dtypes", "df"),
    "DataFrame.read_parquet": ("parquet", "columns", "dtypes", "df"),
    "GeoJSON.read": ("geojson", "columns", "dtypes", "df"),
    "ListOfDicts.read_csv": ("csv", "keys", "types", "lod"),
    "ListOfDicts.read_json": ("json", "keys", "types", "lod"),
    "ListOfDicts.from_json": ("json", "keys", "types", "lod"),
}


def decode_type(t):
    return TYPES.get(t, t)


def call_reader(reader, f, kw):
    """Call one class reader on the file of spec f with the file's own options plus kw (already decoded)."""
    path = ensure_file(f)
    if reader == "DataFrame.read_csv":
        return DataFrame.read_csv(path, sep=f["sep"], header=f["header"], encoding=f["encoding"], **kw)
    if reader == "ListOfDicts.read_csv":
        return ListOfDicts.read_csv(path, sep=f["sep"], header=f["header"], encoding=f["encoding"], **kw)
    if reader == "DataFrame.read_json":
        return DataFrame.read_json(path, encoding=f["encoding"], **kw)
    if reader == "ListOfDicts.read_json":
        return ListOfDicts.read_json(path, encoding=f["encoding"], **kw)
    if reader == "GeoJSON.read":
        return GeoJSON.read(path, encoding=f["encoding"], **kw)
    if reader == "DataFrame.read_parquet":
        return DataFrame.read_parquet(path, **kw)
    if reader in ("DataFrame.from_json", "ListOfDicts.from_json"):
        with open(path, "rb") as fh:
            text = fh.read().decode(f["encoding"])
        cls = DataFrame if reader.startswith("DataFrame") else ListOfDicts
        return cls.from_json(text, **kw)
    raise ValueError(reader)


def restrict_kw(reader, sel, cmap):
    fmt, rk, mk, fam = READERS[reader]
    kw = {}
    if sel is not None:
        kw[rk] = list(sel)
    if cmap is not None:
        kw[mk] = {k: decode_type(v) for k, v in cmap.items()}
    return kw


# ---------------------------------------------------------------------------
# reference: select and cast in plain Python

def df_table(d):
    """name -> (dtype name, cells) of a data frame, read without DataFrame methods."""
    return {name: (V.dtype_name(dict.__getitem__(d, name)), V.cells(dict.__getitem__(d, name))) for name in dict.keys(d)}


def _all(cells, pred):
    present = [x for x in cells if x is not None]
    return all(pred(x) for x in present)


def _isint(x):
    return isinstance(x, int) and not isinstance(x, bool)


def _parses(fn):
    def p(x):
        try:
            fn(x)
            return True
        except Exception:
            return False
    return p


def df_cast_menu(dtname, cells):
    """Unambiguous casts for a column as read (see ASSUMPTIONS)."""
    missing = any(x is None for x in cells)
    if dtname == "int64":
        return ["float", "str", "object", "int"]
    if dtname == "float64":
        integral = any(float(x).is_integer() for x in cells if x is not None)
        if missing and cells and all(float(x).is_integer() for x in cells if x is not None):
            # whole numbers next to a missing value, asked for as int: the missing value must stay missing (the column is
            # widened to hold it) whether it was written as null or as the literal NaN
            return ["int", "float", "object"]
        return ["float", "object"] if integral else ["str", "float", "object"]
    if dtname == "bool":
        return ["int", "str", "float", "object"]
    if dtname == "string":
        menu = ["object", "str"]
        if cells and not missing and _all(cells, _parses(int)):
            menu = ["int", "float"] + menu
        elif cells and not missing and _all(cells, _parses(datetime.date.fromisoformat)):
            menu = ["datetime64[D]"] + menu
        return menu
    if dtname.startswith("datetime64[D]"):
        return ["str", "datetime64[us]", "datetime64[D]"]
    if dtname == "object":
        return ["object"]
    return []


def ref_cast_df(cells, target):
    def one(x):
        if x is None:
            return None
        if target == "float":
            return float(x)
        if target == "int":
            return int(x)
        if target == "bool":
            return bool(x)
        if target == "str":
            return x if isinstance(x, str) else str(x)
        if target == "object":
            return x
        if target == "datetime64[D]":
            return datetime.date.fromisoformat(x) if isinstance(x, str) else x
        if target == "datetime64[us]":
            if isinstance(x, datetime.datetime):
                return x
            return datetime.datetime(x.year, x.month, x.day)
        raise ValueError(target)
    return [one(x) for x in cells]


def _blank_is_missing(cells):
    return [None if isinstance(x, str) and x == "" else x for x in cells]


def lod_items(data):
    return [dict(dict.items(x)) for x in list.__iter__(data)]


def lod_keys(items):
    out = []
    for item in items:
        for k in item:
            if k not in out:
                out.append(k)
    return out


def lod_cast_menu(items, key):
    vals = [x[key] for x in items if key in x]
    if not vals:
        return ["str", "float"]
    menu = []
    for t in ("float", "str", "int", "bool"):
        try:
            [TYPES[t](v) for v in vals]
            menu.append(t)
        except Exception:
            pass
    return menu


def exact(v):
    """Type-strict, NaN-free token of a ListOfDicts value."""
    if isinstance(v, (dict, list)):
        return "r:" + repr(v)
    return (type(v).__name__, V.tok(v))


# ---------------------------------------------------------------------------
# enumeration of arguments

def selections(names):
    yield None
    for k in range(1, len(names) + 1):
        for s in itertools.permutations(names, k):
            yield list(s)


def maps(menus, sel, tier):
    """menus: name -> list of casts. none, every single, every pair (names of the map inside sel)."""
    names = [n for n in menus if sel is None or n in sel]
    yield None
    nsingle = 3 if tier == "quick" else 4
    for n in names:
        for t in menus[n][:nsingle]:
            yield {n: t}
    for n1, n2 in itertools.combinations(names, 2):
        for t1 in menus[n1][:2]:
            for t2 in menus[n2][:2]:
                yield {n1: t1, n2: t2}


# ---------------------------------------------------------------------------
# restrict part

_FULL = {}


def full_read(reader, f):
    key = (os.getpid(), reader, json.dumps(f, sort_keys=True))
    if key not in _FULL:
        try:
            full = call_reader(reader, f, {})
        except Exception as e:
            raise RuntimeError(f"harness: unrestricted {reader} of {f!r} raised {e!r}; no reference to compare with")
        fam = READERS[reader][3]
        if fam == "df":
            info = {"type": type(full).__name__, "table": df_table(full),
                    "meta": repr(sorted(full.metadata.items())) if isinstance(full, GeoJSON) else None,
                    "key": V.frame_key(full)}
            info["names"] = list(info["table"])
            info["menus"] = {n: df_cast_menu(*info["table"][n]) for n in info["names"]}
        else:
            items = lod_items(full)
            names = lod_keys(items)
            if f["fmt"] == "csv":
                # the keys of a CSV file are its header (or the generated names), also when it has no data rows
                mismatch = (names, file_names(f)) if items and names != file_names(f) else None
                names = file_names(f)
            info = {"type": type(full).__name__, "items": items, "names": names,
                    "key": ("LoD", tuple(tuple(sorted((k, exact(v)) for k, v in x.items())) for x in items))}
            if f["fmt"] == "csv" and mismatch:
                info["mismatch"] = mismatch
            info["menus"] = {n: lod_cast_menu(items, n) for n in info["names"]}
        _FULL[key] = info
    return _FULL[key]


def check_restrict(case, rec):
    reader, f, sel, cmap = case["reader"], case["file"], case["sel"], case["map"]
    fam = READERS[reader][3]
    info = full_read(reader, f)
    rec.state(file_state_key(f))
    rec.state(info["key"])
    names = info["names"]
    identity = (sel is None or sel == names) and not cmap
    rec.case((reader, file_state_key(f), repr(sel), repr(cmap)), not identity)
    rec.trans()
    want_names = list(names) if sel is None else list(sel)
    # The check wrote the file itself, so it knows the names an unrestricted read has to return. If it does not
    # return them (e.g. because an earlier, restricted read left something behind), "what is read" has changed.
    truth = file_names(f) if f["fmt"] == "csv" else None
    if info.get("mismatch") or (truth is not None and fam == "df" and list(names) != list(truth)):
        got = info["mismatch"][0] if info.get("mismatch") else names
        rec.violation(reader, "unrestricted-read-wrong-names", case, f"reading everything returns the names {got}, the file has {truth}")
        return
    for n in list(want_names) + list(cmap or {}):
        if n not in names:
            raise RuntimeError(f"harness: {n!r} is not a column of the file ({names})")
    kw = restrict_kw(reader, sel, cmap)
    try:
        out = call_reader(reader, f, kw)
    except Exception as e:
        rec.violation(reader, "raised", case, f"{type(e).__name__}: {e}; read-all-then-select gives columns {want_names}")
        return
    if sel is not None or cmap:
        # the very same argument objects once more: a caller may keep its list / dict and read again with it
        try:
            again = call_reader(reader, f, kw)
            k1 = V.frame_key(out) if fam == "df" else repr(lod_items(out))
            k2 = V.frame_key(again) if fam == "df" else repr(lod_items(again))
        except Exception as e:
            rec.violation(reader, "second-read-raised", case, f"reading again with the same argument objects raised {type(e).__name__}: {e}")
            return
        if k1 != k2:
            rec.violation(reader, "second-read-differs", case, f"reading again with the same argument objects ({kw!r} now) gives {k2}, the first read gave {k1}")
            return
    try:
        if type(out).__name__ != info["type"]:
            rec.violation(reader, "type", case, f"restricted read returned {type(out).__name__}, unrestricted {info['type']}")
            return
        if fam == "df":
            got = df_table(out)
            rec.state(V.frame_key(out))
            extra = [n for n in got if n not in want_names and not (isinstance(out, GeoJSON) and n == "geometry")]
            lack = [n for n in want_names if n not in got]
            if extra or lack:
                rec.violation(reader, "names", case, f"columns {list(got)}; expected exactly {want_names} (any order)")
                return
            for n in got:
                dt, cells = info["table"][n]
                if cmap and n in cmap:
                    cells = ref_cast_df(cells, cmap[n])
                    dt = DTYPE_NAME.get(cmap[n], cmap[n])
                    if cmap[n] == "int" and any(x is None for x in cells):
                        dt = "float64"   # integers widen to float to hold the missing value (C10)
                gdt, gcells = got[n]
                # '' is the string missing value: '' == None wherever a string crosses a boundary (DESIGN 3.4),
                # also inside an object column (str -> object keeps '' in both the reader and astype(object))
                if not V.same_cells(_blank_is_missing(cells), _blank_is_missing(gcells)):
                    rec.violation(reader, "values", case,
                                  f"column {n!r}: got {gcells!r}; read-all-then-select-then-cast gives {cells!r}")
                    return
                if gdt != dt:
                    rec.violation(reader, "dtype", case, f"column {n!r}: dtype {gdt}; read-all-then-select-then-cast gives {dt}")
                    return
            if isinstance(out, GeoJSON):
                meta = repr(sorted(out.metadata.items()))
                if meta != info["meta"]:
                    rec.violation(reader, "metadata", case, f"metadata {meta}; unrestricted {info['meta']}")
                    return
            rec.outcome((reader, tuple(sorted((n, got[n][0], tuple(V.tok(x) for x in got[n][1])) for n in got))))
        else:
            items = lod_items(out)
            exp = []
            for item in info["items"]:
                e = {}
                for k, v in item.items():
                    if k in want_names:
                        e[k] = TYPES[cmap[k]](v) if cmap and k in cmap else v
                exp.append(e)
            gkey = tuple(tuple(sorted((k, exact(v)) for k, v in x.items())) for x in items)
            ekey = tuple(tuple(sorted((k, exact(v)) for k, v in x.items())) for x in exp)
            rec.state(("LoD", gkey))
            if gkey != ekey:
                rec.violation(reader, "values", case, f"got {items!r}; read-all-then-select-then-cast gives {exp!r}")
                return
            rec.outcome((reader, gkey))
    except Exception as e:
        rec.violation(reader, "malformed-result", case, f"{type(e).__name__}: {e}")


# ---------------------------------------------------------------------------
# alias part

ALIASES = {
    # alias -> (class reader, format)
    "read_csv": ("DataFrame.read_csv", "csv"),
    "read_json": ("ListOfDicts.read_json", "json"),
    "read_geojson": ("GeoJSON.read", "geojson"),
    "read_npz": ("DataFrame.read_npz", "npz"),
    "read_parquet": ("DataFrame.read_parquet", "parquet"),
}
CLASS_METHODS = {
    "DataFrame.read_csv": lambda: DataFrame.read_csv,
    "ListOfDicts.read_json": lambda: ListOfDicts.read_json,
    "GeoJSON.read": lambda: GeoJSON.read,
    "DataFrame.read_npz": lambda: DataFrame.read_npz,
    "DataFrame.read_parquet": lambda: DataFrame.read_parquet,
}


def file_names(f):
    names = [c[0] for c in f["cols"]]
    if f["fmt"] == "csv" and not f["header"]:
        # the documented generated names a, b, c, ... - computed here, never taken from the library under test
        import string
        names = list(string.ascii_lowercase[:len(names)])
    return list(dict.fromkeys(names))   # (a name repeated in the header is one key of an item)


def _selection_domain(f, tier):
    names = file_names(f) or ["a"]
    dom = [names[::-1][:2]]
    if tier == "thorough":
        dom += [[names[-1]], names[::-1]]
    return [x for i, x in enumerate(dom) if x not in dom[:i]]


def _map_domain(f, tier, lod):
    kinds = dict(zip(file_names(f), [c[1] for c in f["cols"]]))
    ints = [n for n, k in kinds.items() if k == "int"]
    strs = [n for n, k in kinds.items() if k == "str"]
    first = next(iter(kinds))
    dom = [{ints[0]: "float"} if ints else {first: "str" if lod else "object"}]
    if tier == "thorough":
        dom.append({first: "str"})
        if ints and strs:
            dom.append({ints[0]: "str", strs[0]: "str" if lod else "object"})
    return [x for i, x in enumerate(dom) if x not in dom[:i]]


# Registered non-default domains, per keyword name ("**" = the VAR_KEYWORD catch-all passed on to json.load).
# A keyword found by introspection that is not in this table makes the check fail as 'uncovered'.
KW_DOMAINS = {
    "encoding": lambda f, tier: ["latin-1"] + (["utf-16"] if tier == "thorough" else []),
    "sep": lambda f, tier: [";"] + (["\t"] if tier == "thorough" else []),
    "header": lambda f, tier: [False],
    "columns": _selection_domain,
    "keys": _selection_domain,
    "dtypes": lambda f, tier: _map_domain(f, tier, False),
    "types": lambda f, tier: _map_domain(f, tier, True),
    "allow_pickle": lambda f, tier: [False],
    "**": lambda f, tier: [{"parse_int": "float"}] + ([{"parse_float": "str"}, {"parse_int": "str", "parse_float": "str"}] if tier == "thorough" else []),
}


def keywords_of(fn):
    """Keyword names of a reader besides the path; the VAR_KEYWORD catch-all is named '**'."""
    out = []
    params = list(inspect.signature(fn).parameters.values())
    for i, p in enumerate(params):
        if i == 0 and p.kind in (p.POSITIONAL_ONLY, p.POSITIONAL_OR_KEYWORD):
            continue  # the path
        if p.kind == p.VAR_KEYWORD:
            out.append("**")
        elif p.kind == p.VAR_POSITIONAL:
            out.append("*" + p.name)
        else:
            out.append(p.name)
    return out


def alias_keywords(alias):
    """Union (alias first) of the keywords of the alias and of its class method."""
    a = keywords_of(getattr(di, alias))
    c = keywords_of(CLASS_METHODS[ALIASES[alias][0]]())
    return a + [k for k in c if k not in a]


def decode_kw(kw):
    out = {}
    for k, v in kw.items():
        if k in ("dtypes", "types"):
            out[k] = {n: decode_type(t) for n, t in v.items()}
        elif k == "**":
            out.update({n: decode_type(t) for n, t in v.items()})
        else:
            out[k] = v
    return out


def result_key(x):
    if isinstance(x, DataFrame):
        key = V.frame_key(x)
        if isinstance(x, GeoJSON):
            key += (repr(list(x.metadata.items())),)
        return key
    if isinstance(x, ListOfDicts):
        return (type(x).__name__, tuple(tuple((k, exact(v)) for k, v in dict.items(item)) for item in list.__iter__(x)))
    return ("other", type(x).__name__, repr(x))


def observe(fn, path, kw):
    try:
        out = fn(path, **kw)
    except Exception as e:
        return ("raised", type(e).__name__, str(e))
    return ("returned", result_key(out))


def check_alias(case, rec):
    alias, f, kw = case["alias"], case["file"], case["kw"]
    reader = ALIASES[alias][0]
    path = ensure_file(f)
    rec.state(file_state_key(f))
    rec.case((alias, file_state_key(f), json.dumps(kw, sort_keys=True)), bool(kw))
    rec.trans(2)
    dkw = decode_kw(kw)
    try:
        got = observe(getattr(di, alias), path, dict(dkw))
        exp = observe(CLASS_METHODS[reader](), path, dict(dkw))
    except Exception as e:
        rec.violation("di." + alias, "malformed-result", case, f"{type(e).__name__}: {e}")
        return
    rec.state(exp)
    rec.state(got)
    if got != exp:
        rec.violation("di." + alias, "alias-differs", case,
                      f"di.{alias}(path, **{kw!r}) -> {str(got)[:600]}; {reader}(path, **{kw!r}) -> {str(exp)[:600]}")
        return
    rec.outcome((alias, got))


def check_signature(case, rec):
    alias = case["alias"]
    kws = alias_keywords(alias)
    rec.state(("signature", alias, tuple(kws)))
    rec.case(("signature", alias), True)
    rec.trans()
    missing = [k for k in kws if k not in KW_DOMAINS]
    if missing:
        rec.violation("di." + alias, "uncovered", case,
                      f"keyword(s) {missing} of di.{alias} / {ALIASES[alias][0]} have no registered non-default domain in "
                      f"checks/c14_read_restrict.py:KW_DOMAINS; the alias cannot be checked for them")
        return
    rec.outcome(("signature", alias, tuple(kws)))


def alias_combos(alias, f, tier):
    kws = [k for k in alias_keywords(alias) if k in KW_DOMAINS]
    doms = [[None] + [("v", v) for v in KW_DOMAINS[k](f, tier)] for k in kws]
    for combo in itertools.product(*doms):
        yield {k: c[1] for k, c in zip(kws, combo) if c is not None}


# ---------------------------------------------------------------------------
# module contract

def check_case(case, rec):
    part = case["part"]
    if part == "restrict":
        check_restrict(case, rec)
    elif part == "alias":
        check_alias(case, rec)
    elif part == "signature":
        check_signature(case, rec)
    else:
        raise ValueError(part)


def shards(tier):
    small, big = [], []
    small.append({"part": "signature", "tier": tier})
    for reader, (fmt, rk, mk, fam) in READERS.items():
        for f in files_for(fmt, tier) + (LOD_ONLY_FILES.get(fmt, []) if fam == "lod" else []):
            n = len(f["cols"])
            (small if n <= 3 else big).append({"part": "restrict", "reader": reader, "file": f, "tier": tier, "ncol": n})
    for alias, (reader, fmt) in ALIASES.items():
        for f in files_for(fmt, tier):
            small.append({"part": "alias", "alias": alias, "file": f, "tier": tier, "ncol": len(f["cols"])})
    small.sort(key=lambda s: s.get("ncol", 0))
    big.sort(key=lambda s: s["ncol"])
    # wide files: split the ordered selections over several shards (by first selected name)
    out = list(small)
    for s in big:
        for first in range(-1, s["ncol"] + (1 if s["reader"] == "GeoJSON.read" else 0)):
            out.append(dict(s, first=first))
    from mc import harness
    return harness.with_hash_seeds(out, tier, lambda sh: sh["part"] == "restrict" and sh.get("ncol", 9) == 3 and sh["file"].get("fmt") in ("json", "geojson", "csv"))


def run_shard(shard, rec):
    tier = shard["tier"]
    if shard["part"] == "signature":
        for alias in ALIASES:
            check_case({"part": "signature", "alias": alias}, rec)
        return
    if shard["part"] == "alias":
        n = 0
        for kw in alias_combos(shard["alias"], shard["file"], tier):
            case = {"part": "alias", "alias": shard["alias"], "file": shard["file"], "kw": kw}
            check_case(case, rec)
            if n in (1, 5):
                rec.sample(case)
            n += 1
        return
    reader, f = shard["reader"], shard["file"]
    info = full_read(reader, f)
    names = info["names"]
    n = 0
    for sel in selections(names):
        if "first" in shard:
            idx = -1 if sel is None else names.index(sel[0])
            if idx != shard["first"]:
                continue
        for cmap in maps(info["menus"], sel, tier):
            case = {"part": "restrict", "reader": reader, "file": f, "sel": sel, "map": cmap}
            check_case(case, rec)
            if n in (7, 40):
                rec.sample(case)
            n += 1


def classify(v):
    """Narrow classifiers (one per call site and input class) for known_findings.json."""
    case = v.get("case") or {}
    if case.get("part") == "alias" and v["clause"] == "alias-differs":
        kw = case.get("kw") or {}
        if case["alias"] == "read_parquet" and set(kw) & {"columns", "dtypes"}:
            return "read_parquet alias called with columns/dtypes"
    if case.get("part") == "restrict":
        f = case.get("file") or {}
        names = [c[0] for c in f.get("cols", [])]
        sel = case.get("sel")
        if case["reader"] == "ListOfDicts.read_csv" and sel:
            nrows = len(f["cols"][0][2]) if f.get("cols") else 0
            if v["clause"] == "raised" and nrows == 0:
                return "keys given and the CSV has no data rows"
            if v["clause"] in ("values", "raised") and nrows > 0 and sel != [n for n in file_names(f) if n in sel]:
                return "keys given in an order other than file order"
        if case["reader"] == "DataFrame.read_csv" and sel and v["clause"] == "raised" and not f.get("header", True):
            return "columns given for a headerless CSV"
    return None
