# -*- coding: utf-8 -*-
"""
C07 - aggregation helpers compute the documented statistic and NA policy.

E1: for each of the 16 helpers and each dtype it accepts: (vector form) all
vectors of length 0..N over the kind's alphabet; (group-wise form) all frames
of 1..M rows with group in {1,2}^n (every group layout) x the same values,
with USE_NUMBA off; x all drop_na / ddof / index / q arguments.
Oracle: mc/ref/stats.py (textbook statistic after the documented NA policy,
documented defaults for too-few elements, first-occurrence mode).
"""

import itertools
import numpy as np

import dataiter as di
from mc import values as V
from mc import harness
from mc.ref import stats as S

ID = "C07"
TITLE = "Aggregation helpers compute the documented statistic and NA policy"
RULE = ("cases = (values, group layout or vector form, helper, arguments) enumerated exhaustively; distinct = digest of (dtype, values, groups, helper, args); "
        "non-trivial = the values hold a missing value or a duplicate, or there are two groups")
ASSUMPTIONS = [
    "values outside the per-helper alphabets and vectors/frames longer than the bound are not explored",
    "floating results are compared with relative tolerance 1e-9 (absolute 1e-12)",
    "count_unique and mode of a group holding >= 2 NaN/NaT with drop_na=False, and min/max of a non-numeric column with drop_na=False and a missing value, are unspecified: both readings accepted (DESIGN 3.5)",
    "std/var of a single element with ddof=0 accepts both NaN (the documented default) and 0.0",
    "group-wise form is run with dataiter.USE_NUMBA = False (C08 compares the accelerated implementation with this one)",
]
BOUND = {
    "quick": "size ladder: periodic vectors / two-group frames of 17 and 130 elements; vector form: length 0..4 over 4-5 value alphabets per kind; group-wise: 1..3 rows x groups {1,2}^n x same alphabets; all drop_na in {default,True,False}, ddof {0,1}, index -3..3, q {0,.25,.5,1}; an infinities family (sum, mean, min, max, count, count_unique, first, last over {NA, 1, +inf, -inf}); the type of the missing value returned when nothing is left (vector form: against a per-kind table, not Vector.na_value; group-wise: the result column stays of the input's sort for float, string, date, datetime and timedelta columns); array forms and provenances of the vector / group shards",
    "thorough": "vector form: length 0..5; group-wise: 1..4 rows x groups {1,2}^n; same argument menus; plus the additions listed for the quick tier",
}
TIME_CAP = {"quick": 300, "thorough": 3000}

# (1e9 + 0.5 and 1e9 + 1.5: a large common offset, small spread - a one-pass variance cancels catastrophically there)
STAT_ALPHA = {"f8": [None, "1.0", "2.0", "-1.5", "0.25", "1000000000.5", "1000000001.5"], "i8": [0, 1, 2, -3, 4611686018427387904], "b1": [False, True], "u1": [0, 1, 200, 255],
              "i4": [0, 1, -2147483647, 2147483647]}  # neighbouring order statistics further apart than the type is wide
GEN_ALPHA = {
    "f8": [None, "1.0", "2.0", "-inf"],
    "i8": [0, 1, 2, -3],
    "b1": [False, True],
    "u1": [0, 200, 255],
    "td": [None, "1", "3", "-2"],
    "obj": [None, 1, 2, 3],
    "str": [None, "a", "b", "ab"],
    "D": [None, "1970-01-01", "2020-02-29", "1969-12-31"],
    "us": [None, "1970-01-01T00:00:00", "2020-02-29T23:59:59.999999"],
}
# infinities next to missing values: an infinity is a value (sum / mean follow IEEE arithmetic, min / max order it)
INF_ALPHA = {"f8": [None, "1.0", "inf", "-inf"]}
DROP = [None, True, False]


def helper_calls(family, kind):
    """List of (helper, kwargs) for a family of alphabets."""
    calls = []
    if family == "inf":
        for h in ("sum", "mean", "min", "max", "count", "count_unique", "first", "last"):
            calls += [(h, {"drop_na": d}) for d in DROP]
        return calls
    if family == "stat":
        for h in ("mean", "median", "sum"):
            calls += [(h, {"drop_na": d}) for d in DROP]
        for q in (0, 0.25, 0.5, 1):
            calls += [("quantile", {"q": q, "drop_na": d}) for d in DROP]
        for h in ("std", "var"):
            for ddof in (0, 1):
                calls += [(h, {"ddof": ddof, "drop_na": d}) for d in DROP]
        if kind in ("b1", "i8", "f8", "u1", "i4"):
            calls += [("all", {}), ("any", {})]
        # order-sensitive helpers evaluated AFTER the numeric reductions in the same aggregate call:
        # a reduction that reorders the shared column in place (partial sort) is seen here
        calls += [("first", {"drop_na": False}), ("last", {"drop_na": False}), ("nth", {"index": 1, "drop_na": False}), ("mode", {"drop_na": False})]
    else:
        for h in ("count", "count_unique", "first", "last", "mode"):
            calls += [(h, {"drop_na": d}) for d in DROP]
        if kind != "obj":
            # (objects are not ordered among themselves as far as NumPy is concerned: None next to 1 cannot be compared,
            #  so min/max of an object vector are outside "each dtype a helper accepts")
            for h in ("min", "max"):
                calls += [(h, {"drop_na": d}) for d in DROP]
        for index in range(-3, 4):
            calls += [("nth", {"index": index, "drop_na": d}) for d in DROP]
    return calls


def shards(tier):
    out = []
    nv = 4 if tier == "quick" else 5
    ng = 3 if tier == "quick" else 4
    for family, alphas in (("stat", STAT_ALPHA), ("gen", GEN_ALPHA), ("inf", INF_ALPHA)):
        for kind in alphas:
            out.append({"part": "vector", "family": family, "kind": kind, "n": nv})
            out.append({"part": "long", "family": family, "kind": kind})
            for m in range(1, ng + 1):
                a = alphas[kind]
                if len(a) ** m * 2 ** m > 2000:
                    for first in range(len(a)):
                        out.append({"part": "group", "family": family, "kind": kind, "n": m, "first": first})
                else:
                    out.append({"part": "group", "family": family, "kind": kind, "n": m, "first": None})
    # other forms / provenances of the same arrays (mc/values.np_array, frame_via, vector_via)
    return harness.with_array_forms(out, tier, lambda sh: sh["part"] in ("vector", "group") and sh.get("first") is None and sh["kind"] in ("f8", "i8", "str", "D", "b1"))


def call_kwargs(kw):
    return {k: v for k, v in kw.items() if not (k == "drop_na" and v is None)}


def vector_call(helper, v, kw):
    f = getattr(di, helper)
    k = call_kwargs(kw)
    if helper == "nth":
        return f(v, k.pop("index"), **k)
    if helper == "quantile":
        return f(v, k.pop("q"), **k)
    return f(v, **k)


def group_fn(helper, col, kw):
    f = getattr(di, helper)
    k = call_kwargs(kw)
    if helper == "nth":
        return f(col, k.pop("index"), **k)
    if helper == "quantile":
        return f(col, k.pop("q"), **k)
    return f(col, **k)


def to_cell(v):
    if isinstance(v, np.generic):
        if isinstance(v, np.datetime64):
            return None if np.isnat(v) else v.astype("datetime64[us]").item() if np.datetime_data(v.dtype)[0] not in ("D",) else v.item()
        v = v.item()
    return v


def is_columns_missing_value(na, raw):
    """raw is the missing value `na` of the vector's own type (Vector.na_value, pinned per type by C10): '' for
    strings, NaT for dates and durations, None for booleans and objects, NaN for numbers."""
    if na is None:
        return raw is None
    if isinstance(na, str):
        return isinstance(raw, str) and raw == na
    if isinstance(na, (np.datetime64, np.timedelta64)):
        return isinstance(raw, type(na)) and np.isnat(raw)
    return isinstance(raw, (float, np.floating)) and raw != raw


# the missing value of a column by kind, stated independently of Vector.na_value (a change to that property must not move
# the oracle with it; seeded C07-r12-1): NaN for numbers, NaT of the same sort for dates / datetimes / durations, '' for
# strings, None for booleans and objects
KIND_NA = {"f8": np.nan, "i8": np.nan, "u1": np.nan, "i4": np.nan, "b1": None, "obj": None, "str": "",
           "D": np.datetime64("NaT"), "us": np.datetime64("NaT"), "td": np.timedelta64("NaT")}
# kinds whose group-wise min/max/mode/first/last/nth result column must be of the same sort as the input column
# (it can hold its own missing value): checked when a group is left without elements
SAME_SORT = {"td": "is_timedelta", "D": "is_datetime", "us": "is_datetime", "str": "is_string", "f8": "is_float"}


def ref_kwargs(kw):
    return {k: v for k, v in kw.items() if k != "drop_na"}


def numeric_kind(kind):
    return kind in ("f8", "i8", "b1")


def check_case(case, rec):
    kind, toks = case["kind"], case["toks"]
    groups = case.get("groups")
    xs = V.cells(V.np_array(kind, toks))
    key0 = (kind, tuple(V.tok(x) for x in xs), tuple(groups) if groups else None)
    rec.state(key0)
    nontrivial = (None in xs) or len(set(map(repr, xs))) < len(xs) or (groups is not None and len(set(groups)) > 1)
    calls = [(h, dict(kw)) for h, kw in case["calls"]]
    if groups is None:
        v = V.vector(kind, toks)
        before = V.col_key(v)
        for h, kw in calls:
            rec.case((key0, h, repr(sorted(kw.items()))), nontrivial)
            rec.trans()
            one = {"kind": kind, "toks": toks, "calls": [[h, kw]]}
            exp = S.reference(h, xs, drop_na=kw.get("drop_na"), numeric_kind=numeric_kind(kind), **ref_kwargs(kw))
            try:
                raw = vector_call(h, v, kw)
                got = to_cell(raw)
            except Exception as e:
                rec.violation(h, "vector-raised", one, f"{type(e).__name__}: {e}; expected {exp}")
                continue
            eff_drop = S.DEFAULT_DROP_NA[h] if kw.get("drop_na") is None else kw["drop_na"]
            left = [x for x in xs if x is not None] if eff_drop else xs
            if (exp == ("missing",) and not left and h in ("min", "max", "mode", "first", "last", "nth")
                    and not is_columns_missing_value(KIND_NA[kind], raw)):
                # nothing left to take the statistic of: "the column's missing value" - '' for strings, NaT for dates and
                # durations, None for booleans and objects, NaN for numbers
                rec.violation(h, "vector-missing-kind", one, f"got {raw!r} ({type(raw).__name__}) for {xs} {kw}: not the missing value of a {V.KINDS.get(kind, kind)} vector")
                continue
            if not S.accepts(exp, got, V.same_value):
                rec.violation(h, "vector-value", one, f"got {got!r} expected {exp} for {xs} {kw}")
                continue
            rec.outcome((h, repr(got)))
            if V.col_key(v) != before:
                rec.violation(h, "receiver-changed", one, "vector changed by helper")
                return
        rec.sample({"kind": kind, "toks": toks, "calls": case["calls"][:2]})
        return
    # group-wise form
    d = V.frame([["g", "i8", groups], ["x", kind, toks]])
    before = V.frame_key(d)
    gids = sorted(set(groups))
    members = {g: [xs[i] for i in range(len(xs)) if groups[i] == g] for g in gids}

    def run(sub):
        fns = {f"c{i}": group_fn(h, "x", kw) for i, (h, kw) in enumerate(sub)}
        old = di.USE_NUMBA
        di.USE_NUMBA = False
        try:
            return d.group_by("g").aggregate(**fns)
        finally:
            di.USE_NUMBA = old
            d._group_colnames = ()

    try:
        out = run(calls)
        outs = None
    except Exception:
        out = None
        outs = []
        for h, kw in calls:
            try:
                outs.append(run([(h, kw)]))
            except Exception as e:
                outs.append(e)
    for i, (h, kw) in enumerate(calls):
        rec.case((key0, h, repr(sorted(kw.items()))), nontrivial)
        rec.trans()
        # helpers evaluated earlier in the same call are part of the case (results may depend on them)
        one = {"kind": kind, "toks": toks, "groups": groups, "calls": [[hh, kk] for hh, kk in calls[:i + 1]]}
        res = out if out is not None else outs[i]
        cname = f"c{i}" if out is not None else "c0"
        if isinstance(res, Exception):
            rec.violation(h, "group-raised", one, f"{type(res).__name__}: {res}")
            continue
        try:
            if V.cells(res["g"]) != gids:
                rec.violation(h, "group-keys", one, f"group column {V.cells(res['g'])} expected {gids}")
                continue
            got = V.cells(res[cname])
            bad = None
            for g, val in zip(gids, got):
                exp = S.reference(h, members[g], drop_na=kw.get("drop_na"), numeric_kind=numeric_kind(kind), **ref_kwargs(kw))
                if not S.accepts(exp, val, V.same_value):
                    bad = f"group {g} {members[g]}: got {val!r} (column dtype {res[cname].dtype}) expected {exp} {kw}"
                    break
            if bad:
                rec.violation(h, "group-value", one, bad)
                continue
            if h in ("min", "max", "mode", "first", "last", "nth") and kind in SAME_SORT and not getattr(res[cname], SAME_SORT[kind])():
                eff = S.DEFAULT_DROP_NA[h] if kw.get("drop_na") is None else kw["drop_na"]
                if any(not ([x for x in members[g] if x is not None] if eff else members[g]) or
                       S.reference(h, members[g], drop_na=kw.get("drop_na"), numeric_kind=numeric_kind(kind), **ref_kwargs(kw)) == ("missing",) for g in gids):
                    rec.violation(h, "group-missing-kind", one, f"result column of dtype {res[cname].dtype} for a {V.KINDS.get(kind, kind)} column: "
                                  f"a group without enough elements does not yield the column's missing value ({got!r})")
                    continue
            rec.outcome((h, tuple(map(repr, got))))
        except Exception as e:
            rec.violation(h, "malformed-result", one, f"{type(e).__name__}: {e}")
    if V.frame_key(d) != before:
        rec.violation("aggregate", "receiver-changed", {"kind": kind, "toks": toks, "groups": groups, "calls": case["calls"]}, "frame changed by aggregate")
    rec.sample({"kind": kind, "toks": toks, "groups": groups, "calls": case["calls"][:2]})


def long_cases(alpha, kind, calls):
    """Periodic long vectors and two-group frames (101+ elements: fast paths often start above a threshold)."""
    for length in (17, 130):
        for p in (2, 3):
            for pat in itertools.product(alpha, repeat=p):
                if len(set(pat)) < 2:
                    continue
                toks = [pat[i % p] for i in range(length)]
                yield {"kind": kind, "toks": toks, "calls": calls}
                yield {"kind": kind, "toks": toks, "groups": [1 + (i % 5 == 0) for i in range(length)], "calls": calls}
    # three and four groups of UNEQUAL sizes whose first size times the number of groups equals the row count
    # (2,1,3 / 3,5,1 ...), contiguous and interleaved: a "balanced groups" shortcut must not take these
    for sizes in ((2, 1, 3), (3, 1, 2), (1, 3, 2), (2, 2, 1, 3), (3, 5, 1)):
        n = sum(sizes)
        contiguous = [g for g, sz in enumerate(sizes, 1) for _ in range(sz)]
        interleaved = [contiguous[(i * 5) % n] for i in range(n)] if n % 5 else list(reversed(contiguous))
        for p in (2, 3):
            for pat in itertools.product(alpha, repeat=p):
                if len(set(pat)) < 2:
                    continue
                toks = [pat[i % p] for i in range(n)]
                yield {"kind": kind, "toks": toks, "groups": contiguous, "calls": calls}
                yield {"kind": kind, "toks": toks, "groups": interleaved, "calls": calls}


def run_shard(shard, rec):
    family, kind = shard["family"], shard["kind"]
    alpha = {"stat": STAT_ALPHA, "gen": GEN_ALPHA, "inf": INF_ALPHA}[family][kind]
    calls = [[h, kw] for h, kw in helper_calls(family, kind)]
    if shard["part"] == "long":
        for case in long_cases(alpha, kind, calls):
            check_case(case, rec)
        return
    if shard["part"] == "vector":
        for toks in V.seqs(alpha, 0, shard["n"]):
            check_case({"kind": kind, "toks": list(toks), "calls": calls}, rec)
        return
    n = shard["n"]
    for toks in itertools.product(alpha, repeat=n):
        if shard["first"] is not None and toks[0] != alpha[shard["first"]]:
            continue
        for groups in itertools.product([1, 2], repeat=n):
            check_case({"kind": kind, "toks": list(toks), "groups": list(groups), "calls": calls}, rec)


def classify(v):
    return None
