# -*- coding: utf-8 -*-
"""
C10 - Vector construction and the missing-value model are coherent.

E1: all sequences of length 0..N over ~21 Python/NumPy scalars, without dtype
and (for homogeneous sequences) with each compatible explicit dtype. Oracle:
for homogeneous sequences the documented inference table; for every sequence
the laws of the statement (NA positions flagged, tolist/rebuild round trip,
equal is an equivalence treating missing == missing, na_dtype can hold
na_value, drop_na/replace_na act on exactly the flagged positions).
"""

import datetime
import itertools
import math
import numpy as np

import dataiter as di
from dataiter import Vector
from mc import values as V

ID = "C10"
TITLE = "Vector construction and the missing-value model are coherent"
RULE = ("cases = every sequence over the scalar alphabet up to the length bound (x explicit dtypes for homogeneous ones), each run through "
        "construction + all laws; distinct = digest of (scalar names, dtype); non-trivial = contains a missing value and a non-missing value, or mixes >= 2 value types")
ASSUMPTIONS = [
    "nested sequences as elements and NaT scalars mixed into non-date sequences are unspecified and excluded (DESIGN 3.5); None with explicit dtype bool is expected to be upcast to object (the only way is_na can flag it)",
    "for mixed-type sequences only the laws are checked, not a particular inferred dtype",
]
BOUND = {
    "quick": "sequences of length 0..3 over 34 scalars; explicit dtypes for homogeneous sequences; equal() relation over all pairs of vectors of length <= 2 built from 14 scalars; the laws that hold for any vector also on 14 derived vectors (as_* conversions, copy, reversed, concat, head, unique, sort, fancy index) of every constructed vector of length <= 3",
    "thorough": "sequences of length 0..4 over 34 scalars; equal() relation over all pairs of vectors of length <= 2 built from all 34 scalars (vectors reported equal must also hold == values position by position); derived vectors as in quick",
}
TIME_CAP = {"quick": 240, "thorough": 3000}


class Inst:
    def __repr__(self):
        return "<Inst>"


class Aloof:
    """An arbitrary object that is not equal to anything, itself included (like a SQL NULL wrapper). Not a missing value."""

    def __eq__(self, other):
        return False

    def __ne__(self, other):
        return True

    __hash__ = object.__hash__

    def __repr__(self):
        return "<Aloof>"


DERIVED_MAXLEN = 3
INST = Inst()
ALOOF = Aloof()
DICT = {"k": 1}

SCALARS = {
    "None": None,
    "nan": float("nan"),
    "npnan": np.float64("nan"),
    "True": True,
    "1": 1,
    "big": 2 ** 53 + 1,
    "i24": 2 ** 24 + 1,      # fits int32, is not a float32
    "1.5": 1.5,
    "inf": float("inf"),     # not a missing value
    "complex": 1 + 2j,
    "a": "a",
    "empty": "",
    "sNaT": "NaT",           # text that reads like a missing marker is text
    "snan": "nan",
    "negzero": -0.0,
    # two strings of the same length, too long for StringDType's inline storage, that differ in the last character
    "long1": "2020-01-01T00:00:00",
    "long2": "2020-01-01T00:00:01",
    "date": datetime.date(2020, 2, 29),
    "datetime": datetime.datetime(2020, 2, 29, 23, 59, 59),
    "timedelta": datetime.timedelta(days=1),
    "bytes": b"x",
    "bytes3": b"xyz",                # longer than the one-character width of an empty vector of an unsized bytes / string type
    "np.int64": np.int64(1),
    "np.float64": np.float64(1.5),
    "np.float32": np.float32(1.5),   # not an instance of float (np.float64 is)
    "np.bool": np.bool_(True),
    "np.str": np.str_("a"),
    "np.str3": np.str_("abc"),
    "np.dt64": np.datetime64("2020-02-29"),
    "np.dt64M": np.datetime64("2020-02", "M"),   # a calendar unit (months are not a fixed number of microseconds)
    "np.NaT": np.datetime64("NaT"),
    "np.td64": np.timedelta64(1, "D"),
    "np.td64ns": np.timedelta64(86400 * 10 ** 9 + 5000, "ns"),   # nanosecond resolution, a whole number of microseconds
    "dict": DICT,
    "inst": INST,
    "aloof": ALOOF,
}
NAMES = list(SCALARS)
MISSING = {"None", "nan", "npnan"}
FAMILY = {
    "True": "bool", "1": "int", "big": "int", "i24": "int", "1.5": "float", "inf": "float", "complex": "complex", "a": "str", "empty": "str", "sNaT": "str", "snan": "str", "negzero": "float", "long1": "str", "long2": "str",
    "date": "date", "datetime": "datetime", "timedelta": "timedelta", "bytes": "bytes", "bytes3": "bytes", "np.str3": "np.str",
    "np.int64": "np.int", "np.float64": "np.float", "np.float32": "np.float32", "np.bool": "np.bool", "np.str": "np.str",
    "np.dt64": "np.dt64", "np.dt64M": "np.dt64", "np.NaT": "np.dt64", "np.td64": "np.td64", "np.td64ns": "np.td64", "dict": "object", "inst": "object", "aloof": "object",
}
DATEISH = {"date", "datetime", "np.dt64"}   # (families; np.dt64M is of family np.dt64)
EXPLICIT = {
    "int": [int, float, object, "int32", "uint16"],
    "float": [float, object],
    "bool": [bool, object],
    "str": [str, object],
    "date": ["datetime64[D]", object],
    "datetime": ["datetime64[us]", object],
    "np.int": [int, float],
    "np.float": [float],
    # unsized flexible types: the width comes from the values, not from an empty prototype (seeded C10-r12-1; fix in /repo)
    "bytes": [bytes, "S"],
    "np.str": ["U"],
}


def shards(tier):
    n = 3 if tier == "quick" else 4
    out = [{"part": "seq", "n": n - 1, "first": None}]
    for a in range(len(NAMES)):
        if n == 4:
            for b in range(0, len(NAMES), 7):
                out.append({"part": "seq", "n": n, "first": a, "second": [b, min(b + 7, len(NAMES))]})
        else:
            out.append({"part": "seq", "n": n, "first": a})
    out.append({"part": "equal", "tier": tier})
    return out


def is_missing_scalar(x):
    return x is None or (isinstance(x, float) and math.isnan(x))


def flagged(v):
    return [bool(b) for b in np.asarray(v.is_na())]


def dtype_arg(d):
    return {int: "int", float: "float", bool: "bool", str: "str", object: "object", bytes: "bytes"}.get(d, d)


def undo_dtype(s):
    return {"int": int, "float": float, "bool": bool, "str": str, "object": object, "bytes": bytes}.get(s, s)


def expected_homogeneous(fam, has_missing, dtype):
    """(dtype predicate description, na kind) for a homogeneous family, or None if not pinned."""
    if dtype is None:
        if fam in ("int", "np.int"):
            return ("float64", "nan") if has_missing else ("int64", None)
        if fam in ("float", "np.float"):
            return ("float64", "nan")
        if fam == "bool":
            return ("object", "None") if has_missing else ("bool", None)
        if fam == "np.bool":
            return ("object", "None") if has_missing else ("bool", None)
        if fam == "str":
            return ("string", "''")
        if fam == "np.str":
            return ("anystring", "''")
        if fam == "date":
            return ("datetime64[D]", "NaT")
        if fam == "datetime":
            return ("datetime64[us]", "NaT")
        if fam == "np.dt64":
            return ("datetime64", "NaT")
        if fam == "np.td64":
            return ("timedelta64", "NaTd")
        if fam in ("object", "bytes", "timedelta", "complex"):
            # (NaN is a float, so a complex number next to a missing value is "otherwise": an object vector with None)
            return ("object", "None") if has_missing else (None, None)
        return None
    if dtype is int:
        return ("float64", "nan") if has_missing else ("int64", None)
    if dtype == "uint16":
        # an unsigned integer type is an integer type: NaN in some float when a missing value has to be held
        return (None, "nan") if has_missing else ("uint16", None)
    if dtype == "int32":
        # widened to some float when a missing value has to be held: which one is not stated, but tolist() must
        # give the original values back (checked below), so the float must be wide enough for every int32
        return (None, "nan") if has_missing else ("int32", None)
    if dtype is float:
        return ("float64", "nan")
    if dtype is bool:
        # a missing value must be flagged by is_na, which bool cannot do: the vector has to be upcast (na_dtype = object)
        return ("object", "None") if has_missing else ("bool", None)
    if dtype is str:
        return ("string", "''")
    if dtype is object:
        return ("object", "None")
    if dtype is bytes or dtype == "S":
        return ("object", "None") if has_missing else (None, None)
    if dtype == "U":
        return ("anystring", "''")
    return (dtype, "NaT")


def dtype_matches(v, want):
    if want is None:
        return True
    if want == "string":
        return v.is_string()
    if want == "anystring":
        return v.is_string() or v._is_string_fixed()
    if want == "datetime64":
        return v.is_datetime()
    if want == "timedelta64":
        return v.is_timedelta()
    return str(v.dtype) == want


def na_kind_ok(v, i, kind):
    x = np.asarray(v)[i]
    if kind == "nan":
        return isinstance(x, (float, np.floating)) and math.isnan(x)
    if kind == "NaT":
        return isinstance(x, np.datetime64) and np.isnat(x)
    if kind == "NaTd":
        return isinstance(x, np.timedelta64) and np.isnat(x)
    if kind == "''":
        return x == ""
    if kind == "None":
        return x is None
    return True


def same_orig(a, b):
    """tolist value vs original scalar."""
    if a is b:
        return True
    if isinstance(b, (bool, np.bool_)) != isinstance(a, (bool, np.bool_)):
        return False   # True is not 1 or 1.0: a boolean comes back as a boolean, a number as a number
    if isinstance(b, np.timedelta64):
        b = b.astype("timedelta64[us]").item()
    if isinstance(b, np.generic):
        if isinstance(b, np.datetime64):
            b = b.astype("datetime64[us]").item() if not np.isnat(b) else None
            if isinstance(a, datetime.date) and not isinstance(a, datetime.datetime) and isinstance(b, datetime.datetime):
                a = datetime.datetime(a.year, a.month, a.day)
        else:
            b = b.item()
    return V.same_value(a, b)


def replacement_for(v):
    if v.is_float():
        return 7.0
    if v.is_integer():
        return 7
    if v.is_boolean():
        return True
    if v.is_string() or v._is_string_fixed():
        return "z"
    if v.is_datetime():
        # a Python date for date vectors (what a user would naturally write), a NumPy scalar otherwise
        return datetime.date(2000, 1, 1) if np.datetime_data(v.dtype)[0] == "D" else np.datetime64("2000-01-01")
    if v.is_timedelta():
        return np.timedelta64(3, "D")
    if v.dtype.kind == "c":
        return 5 + 0j
    return "R"


def laws(v, names, seq, rec, one, homog):
    """Check the statement's laws on one constructed vector. Returns outcome digest."""
    n = len(seq)
    if not isinstance(v, Vector) or v.ndim != 1 or v.length != n:
        rec.violation("construct", "shape", one, f"type {type(v).__name__} shape {getattr(v, 'shape', None)} for {n} values")
        return None
    fl = flagged(v)
    # 1. None / NaN positions are flagged
    for i, x in enumerate(seq):
        if is_missing_scalar(x) and not fl[i]:
            rec.violation("is_na", "missing-not-flagged", one, f"position {i} ({names[i]}) not flagged; vector {v!r} dtype {v.dtype}")
            return None
    tl = v.tolist()
    if len(tl) != n or any((t is None) != f for t, f in zip(tl, fl)):
        rec.violation("tolist", "none-at-missing", one, f"tolist {tl!r} vs is_na {fl}")
        return None
    if homog is not None:
        fam, has_missing, dtype = homog
        exp = expected_homogeneous(fam, has_missing, dtype)
        if exp is not None:
            want_dtype, na_kind = exp
            if not dtype_matches(v, want_dtype):
                rec.violation("construct", "inferred-dtype", one, f"dtype {v.dtype} expected {want_dtype}")
                return None
            for i, x in enumerate(seq):
                miss = (is_missing_scalar(x) or (isinstance(x, np.datetime64) and np.isnat(x))
                        or (x == "" and (v.is_string() or v._is_string_fixed())))
                if miss != fl[i]:
                    rec.violation("is_na", "exactly-missing", one, f"is_na {fl} for {names}")
                    return None
                if miss and not na_kind_ok(v, i, na_kind):
                    rec.violation("construct", "na-representation", one, f"position {i} holds {np.asarray(v)[i]!r}, expected {na_kind}")
                    return None
                if not miss and v.is_float() and isinstance(x, int) and not isinstance(x, bool) and tl[i] == float(x):
                    continue  # integers widened to float: values beyond 2**53 are rounded by float64 itself
                if not miss and not same_orig(tl[i], x):
                    rec.violation("tolist", "original-values", one, f"tolist {tl!r} for {names}")
                    return None
    elif v.is_object() or v.is_datetime():
        # a sequence of several families that was NOT coerced to numbers or strings (an object vector, or - dates next
        # to datetimes - a datetime vector): tolist still returns the values that were given
        for i, x in enumerate(seq):
            if fl[i] or is_missing_scalar(x):
                continue
            t = tl[i]
            if isinstance(x, np.datetime64) and np.isnat(x):
                continue
            if isinstance(x, datetime.datetime) and isinstance(t, datetime.date) and not isinstance(t, datetime.datetime):
                rec.violation("tolist", "original-values", one, f"tolist {tl!r} for {names}: the time of day of position {i} is gone")
                return None
            if v.is_object() and not (t is x or same_orig(t, x)):
                rec.violation("tolist", "original-values", one, f"tolist {tl!r} for {names}: position {i} was {x!r}")
                return None
    # 2. rebuild from tolist + dtype (equal() is defined by ==, so a value unequal to itself is outside laws 2 and 3)
    aloof = any(x is ALOOF for x in seq)
    try:
        w = Vector(tl, v.dtype)
        ok = aloof or w.equal(v)
    except Exception as e:
        rec.violation("rebuild", "raised", one, f"Vector(v.tolist(), v.dtype): {type(e).__name__}: {e}")
        return None
    if not ok:
        rec.violation("rebuild", "not-equal", one, f"Vector({tl!r}, {v.dtype}) = {w!r} not equal to {v!r}")
        return None
    # 3. equal is reflexive
    try:
        if not aloof and (not v.equal(v) or not v.equal(v.copy())):
            rec.violation("equal", "reflexive", one, f"{v!r} not equal to itself")
            return None
    except Exception as e:
        rec.violation("equal", "raised", one, f"{type(e).__name__}: {e}")
        return None
    # 4. na_dtype can hold na_value at any position
    try:
        for i in range(n):
            u = v.astype(v.na_dtype)
            if flagged(u) != fl:   # (asked BEFORE the write as well: the answer after it must not be an old one)
                rec.violation("na_dtype", "cast-keeps-missing", one, f"after astype({v.na_dtype}): is_na {flagged(u)} expected {fl}; {u!r}")
                return None
            u[i] = u.na_value
            uf = flagged(u)
            want = [f or (j == i) for j, f in enumerate(fl)]
            if uf != want:
                rec.violation("na_dtype", "holds-na-value", one, f"after astype({v.na_dtype}) and [{i}] = na_value: is_na {uf} expected {want}; {u!r}")
                return None
    except Exception as e:
        rec.violation("na_dtype", "raised", one, f"{type(e).__name__}: {e}")
        return None
    # 5. drop_na / replace_na
    try:
        dn = v.drop_na()
        keep = [t for t, f in zip(tl, fl) if not f]
        if str(dn.dtype) != str(v.dtype) or not V.same_cells(dn.tolist(), keep) or any(flagged(dn)):
            rec.violation("drop_na", "exactly-missing", one, f"drop_na {dn!r} expected {keep!r}")
            return None
        if v.is_datetime() and np.datetime_data(v.dtype)[0] == "generic":
            return (str(v.dtype), tuple(fl))  # a unit-less datetime vector (only NaT scalars given) can hold nothing but NaT
        reps = [replacement_for(v)]
        # a replacement that is falsy (0, 0.0, False) is a replacement like any other
        if v.is_float():
            reps.append(0.0)
        elif v.is_integer() and not v.is_timedelta():
            reps.append(0)
        elif v.is_boolean():
            reps.append(False)
        elif v.is_object():
            reps += [0, False]
        for r in reps:
            rn = v.replace_na(r)
            rl = rn.tolist() if not rn.is_object() else list(np.asarray(rn))
            for i in range(n):
                if str(rn.dtype) != str(v.dtype):
                    rec.violation("replace_na", "dtype-kept", one, f"replace_na({r!r}) turned {v.dtype} into {rn.dtype}")
                    return None
                if fl[i]:
                    got = np.asarray(rn)[i]
                    if isinstance(got, np.datetime64) and isinstance(r, datetime.date):
                        got = got.astype("datetime64[D]").item()
                    if isinstance(got, np.generic) and not isinstance(got, (np.datetime64, np.timedelta64)):
                        got = got.item()
                    if not (got == r):
                        rec.violation("replace_na", "replaced", one, f"position {i} holds {got!r} after replace_na({r!r})")
                        return None
                elif not V.same_value(rn.tolist()[i], tl[i]):
                    rec.violation("replace_na", "others-kept", one, f"position {i} changed: {rn!r} from {v!r}")
                    return None
        if V.col_key(v)[1] != tuple(V.tok(x) for x in V.cells(v)):
            pass
    except Exception as e:
        rec.violation("drop_na/replace_na", "raised", one, f"{type(e).__name__}: {e}")
        return None
    return (str(v.dtype), tuple(fl))


DERIVED_ROUTES = ["as_object", "as_string", "as_float", "as_integer", "as_boolean", "as_date", "as_datetime", "copy", "reversed", "concat_self",
                  "head", "unique", "sort", "fancy"]


def derive(v, route):
    if route == "reversed":
        return v[::-1]
    if route == "concat_self":
        return v.concat(v)
    if route == "head":
        return v.head(1)
    if route == "fancy":
        return v[np.arange(len(v))[::-1]]
    return getattr(v, route)()


def derived_laws(v, case, rec):
    """The laws that the statement gives for ANY vector, on vectors that are the product of a conversion or of another
    Vector method applied to a constructed one (provenance): tolist has None exactly at the flagged positions and no
    NaN / NaT anywhere, rebuilding from tolist + dtype gives an equal vector, equal is reflexive, drop_na and
    replace_na act on exactly the flagged positions."""
    for route in DERIVED_ROUTES:
        try:
            d = derive(v, route)
        except Exception:
            rec.count("derivations_refused")
            continue
        one = dict(case, derived=route)
        rec.trans()
        if not isinstance(d, Vector) or d.ndim != 1:
            rec.violation(route, "shape", one, f"type {type(d).__name__} shape {getattr(d, 'shape', None)}")
            return
        if d.dtype == object and any(isinstance(x, (np.datetime64, np.timedelta64)) and np.isnat(x) for x in np.asarray(d)):
            continue   # NaT scalar objects inside an object vector are outside the statement (as for constructed vectors)
        if any(x is ALOOF for x in np.asarray(d).tolist()) if d.dtype == object else False:
            continue
        try:
            fl = flagged(d)
            tl = d.tolist()
            if len(tl) != len(d) or any((t is None) != f for t, f in zip(tl, fl)):
                rec.violation(route, "derived:none-at-missing", one, f"{route} of {v!r}: tolist {tl!r} vs is_na {fl}")
                return
            bad = [t for t in tl if (isinstance(t, float) and t != t) or (isinstance(t, (np.datetime64, np.timedelta64)) and np.isnat(t))]
            if bad:
                rec.violation(route, "derived:missing-marker-in-tolist", one, f"{route} of {v!r}: tolist {tl!r} holds a NaN / NaT that is_na does not flag")
                return
            w = Vector(tl, d.dtype)
            if not w.equal(d):
                rec.violation(route, "derived:rebuild-not-equal", one, f"{route} of {v!r} = {d!r}: Vector({tl!r}, {d.dtype}) = {w!r} is not equal to it")
                return
            if not d.equal(d):
                rec.violation(route, "derived:reflexive", one, f"{route} of {v!r} = {d!r} is not equal to itself")
                return
            dn = d.drop_na()
            keep = [t for t, f in zip(tl, fl) if not f]
            if str(dn.dtype) != str(d.dtype) or not V.same_cells(dn.tolist(), keep) or any(flagged(dn)):
                rec.violation(route, "derived:drop_na", one, f"{route} of {v!r} = {d!r}: drop_na {dn!r} expected {keep!r}")
                return
            if not (d.is_datetime() and np.datetime_data(d.dtype)[0] == "generic"):
                r = replacement_for(d)
                rn = d.replace_na(r)
                if str(rn.dtype) != str(d.dtype) or any(flagged(rn)) or any(not fl[i] and not V.same_value(rn.tolist()[i], tl[i]) for i in range(len(tl))):
                    rec.violation(route, "derived:replace_na", one, f"{route} of {v!r} = {d!r}: replace_na({r!r}) gave {rn!r}")
                    return
        except Exception as e:
            rec.violation(route, "derived:raised", one, f"{route} of {v!r}: {type(e).__name__}: {e}")
            return
        rec.outcome(("derived", route, str(d.dtype), tuple(fl)))


def homogeneity(names):
    fams = {FAMILY[x] for x in names if x not in MISSING}
    has_missing = any(x in MISSING for x in names)
    if len(fams) == 1:
        return fams.pop(), has_missing
    return None


def excluded(names):
    nonmiss = {FAMILY[x] for x in names if x not in MISSING}
    # NaT scalars mixed into non-date sequences (DESIGN 3.5)
    if "np.NaT" in names and not nonmiss <= DATEISH:
        return True
    # a timedelta64 scalar mixed with numbers: NumPy reinterprets the numbers as durations (not a dataiter decision)
    if ("np.td64" in names or "np.td64ns" in names) and not nonmiss <= {"np.td64", "timedelta"}:
        return True
    return False


def check_case(case, rec):
    names = case["names"]
    dtype = undo_dtype(case.get("dtype"))
    seq = [SCALARS[x] for x in names]
    hm = homogeneity(names)
    key = (tuple(names), str(case.get("dtype")))
    fams = {FAMILY[x] for x in names if x not in MISSING}
    nontrivial = (any(x in MISSING for x in names) and bool(fams)) or len(fams) >= 2
    rec.case(key, nontrivial)
    rec.trans()
    rec.state(key)
    try:
        v = Vector(list(seq)) if dtype is None else Vector(list(seq), dtype)
    except Exception as e:
        if hm is not None or not fams:
            rec.violation("construct", "raised", case, f"{type(e).__name__}: {e}")
        else:
            rec.count("mixed_rejected")  # NumPy may refuse a mixed sequence; nothing is mis-stored
        return
    if v.dtype == object and any(isinstance(x, np.datetime64) and np.isnat(x) for x in np.asarray(v)):
        rec.pruned += 1  # NaT scalar inside an object vector: not an input the statement maps to missing (DESIGN 3.5)
        return
    homog = None
    if hm is not None:
        homog = (hm[0], hm[1], dtype)
    elif not fams and dtype is None:
        homog = ("object", bool(names), None) if names else None
    elif not fams and names:
        homog = ({int: "int", float: "float", str: "str", object: "object", bool: "bool"}.get(dtype, "date" if dtype == "datetime64[D]" else "datetime"), True, dtype)
    out = laws(v, names, seq, rec, case, homog)
    if out is not None:
        rec.state(("vec", str(v.dtype), tuple(V.tok(x) for x in V.cells(v))))
        rec.outcome(out)
        if len(names) <= DERIVED_MAXLEN and not any(x is ALOOF for x in seq):
            derived_laws(v, case, rec)
    rec.sample(case)


def seq_cases(names):
    yield {"names": list(names), "dtype": None}
    hm = homogeneity(names)
    if hm is not None:
        fam, has_missing = hm
        for d in EXPLICIT.get(fam, []):
            if d in ("int32", "uint16") and ("big" in names or (d == "uint16" and "i24" in names)):
                continue  # does not fit the requested type
            yield {"names": list(names), "dtype": dtype_arg(d)}
    elif names and all(x in MISSING for x in names):
        # entirely missing input with an explicit dtype: the dtype's own missing value everywhere
        for d in (int, float, str, object, bool, "datetime64[D]", "datetime64[us]"):
            yield {"names": list(names), "dtype": dtype_arg(d)}


def run_equal(tier, rec):
    # np.timedelta64 is left out of the relation pool: Python's own == is not transitive across it
    # (True == np.timedelta64(1, 'D') == timedelta(days=1), but True != timedelta(days=1)), and equal() is defined by ==
    pool = [x for x in NAMES if x not in ("np.td64", "np.td64ns", "aloof")] if tier != "quick" else ["None", "nan", "True", "1", "1.5", "a", "empty", "long1", "long2", "date", "datetime", "np.int64", "np.dt64", "inst"]
    vecs = []
    for n in range(0, 3):
        for names in itertools.product(pool, repeat=n):
            if excluded(names):
                continue
            try:
                vecs.append((list(names), Vector([SCALARS[x] for x in names])))
            except Exception:
                continue
    m = len(vecs)
    eq = [set() for _ in range(m)]
    for i in range(m):
        rec.state(("eqv", tuple(vecs[i][0])))
        for j in range(m):
            rec.case(("equal", i, j), i != j)
            rec.trans()
            try:
                r = bool(vecs[i][1].equal(vecs[j][1]))
            except Exception as e:
                rec.violation("equal", "raised", {"equal": [vecs[i][0], vecs[j][0]]}, f"{type(e).__name__}: {e}")
                continue
            if r:
                eq[i].add(j)
                # vectors reported equal hold, position by position, two missing values or two values that are == in Python
                a, b = vecs[i][1], vecs[j][1]
                la, lb = a.tolist(), b.tolist()
                bad = len(la) != len(lb) or any(not ((x is None and y is None) or (x is not None and y is not None and x == y))
                                                for x, y in zip(la, lb))
                if bad:
                    rec.violation("equal", "equal-but-different", {"equal": [vecs[i][0], vecs[j][0]]}, f"{a!r} reported equal to {b!r}")
            rec.outcome(("equal", r))
    for i in range(m):
        if i not in eq[i]:
            rec.violation("equal", "reflexive", {"equal": [vecs[i][0], vecs[i][0]]}, f"{vecs[i][1]!r}")
        for j in eq[i]:
            if i not in eq[j]:
                rec.violation("equal", "symmetric", {"equal": [vecs[i][0], vecs[j][0]]}, f"{vecs[i][1]!r} equal {vecs[j][1]!r} but not conversely")
            for k in eq[j]:
                if k not in eq[i]:
                    rec.violation("equal", "transitive", {"equal": [vecs[i][0], vecs[j][0], vecs[k][0]]},
                                  f"{vecs[i][1]!r} = {vecs[j][1]!r} = {vecs[k][1]!r} but first != third")
    rec.sample({"equal_pool": pool, "vectors": m})


def check_equal_case(case, rec):
    vs = [Vector([SCALARS[x] for x in names]) for names in case["equal"]]
    if len(vs) == 2 and vs[0].equal(vs[1]):
        la, lb = vs[0].tolist(), vs[1].tolist()
        if len(la) != len(lb) or any(not ((x is None and y is None) or (x is not None and y is not None and x == y)) for x, y in zip(la, lb)):
            rec.violation("equal", "equal-but-different", case, f"{vs[0]!r} reported equal to {vs[1]!r}")
    if len(vs) == 2:
        a, b = vs
        if a.equal(b) != b.equal(a):
            rec.violation("equal", "symmetric", case, f"{a!r} vs {b!r}")
        if case["equal"][0] == case["equal"][1] and not a.equal(b):
            rec.violation("equal", "reflexive", case, f"{a!r}")
    else:
        a, b, c = vs
        if a.equal(b) and b.equal(c) and not a.equal(c):
            rec.violation("equal", "transitive", case, f"{a!r} {b!r} {c!r}")


def run_shard(shard, rec):
    if shard["part"] == "equal":
        return run_equal(shard["tier"], rec)
    n = shard["n"]
    if shard["first"] is None:
        it = V.seqs(NAMES, 0, n)
    elif "second" in shard:
        lo, hi = shard["second"]
        it = ((NAMES[shard["first"]], NAMES[b]) + rest for b in range(lo, hi) for rest in itertools.product(NAMES, repeat=n - 2))
    else:
        it = ((NAMES[shard["first"]],) + rest for rest in itertools.product(NAMES, repeat=n - 1))
    for names in it:
        if excluded(names):
            rec.pruned += 1
            continue
        for case in seq_cases(names):
            check_case(case, rec)


_orig_check_case = check_case


def check_case(case, rec):  # noqa: F811 - dispatch for replay files of the equal() part
    if "equal" in case:
        return check_equal_case(case, rec)
    return _orig_check_case(case, rec)


def classify(v):
    return None
