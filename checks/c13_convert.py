# -*- coding: utf-8 -*-
"""
C13 - conversions to ListOfDicts, JSON, pandas and Arrow are invertible.

E1: every frame of 1..N rows with one or two columns over bool / int / float /
string / date / datetime, every value assignment over a small per-dtype
alphabet and EVERY missing mask (each position is NA or one of the values, so
"first position missing" and "all missing" are enumerated, not sampled), x the
four converter pairs. One execution = build the frame, export it, inspect the
intermediate object, import it back, compare with the reference cells that
were computed from the NumPy arrays handed to the constructor.

Oracle (only what the statement says):
  names      same column names, same order
  values     same value at every non-missing position (bool only equals bool)
  missing    same missing positions
  dtype      same dtype for each bool/int/float/string column holding >= 1
             non-missing value. "Same" is relative to the frame as dataiter
             holds it under the documented NA model: an int column with a
             missing value IS a float64 column, a bool column with a missing
             value IS an object column.
  records    the intermediate object has one record per row
  fields     ... and one field per column (names in order)
  null       the intermediate shows the format's null (None / JSON null /
             pd.isna / Arrow is_null) exactly at the missing positions
  raised     a conversion that raises
"""

import os
import math
import datetime
import itertools
import json

import numpy as np
import pandas as pd
import pyarrow as pa

import dataiter as di
from mc import values as V

ID = "C13"
TITLE = "Conversions to ListOfDicts, JSON, pandas and Arrow are invertible"
RULE = ("cases = (frame, converter pair) enumerated exhaustively: every column is a sequence over {NA} + the dtype's "
        "value alphabet, so every missing mask occurs with every value assignment; distinct = digest of (columns, "
        "converter); non-trivial = at least one column holds a missing value")
ASSUMPTIONS = [
    "values outside the per-dtype alphabets listed in the bound, frames longer than the row bound and frames with more than two columns are not explored",
    "frames are built from NumPy arrays through the public DataFrame constructor; an int column with a missing value is the float64 column and a bool column with a missing value is the object column that the documented NA model prescribes, and 'same dtype' is judged against that frame",
    "JSON has no temporal type: to_json documents default=str, so a date/datetime cell is accepted in the JSON text as a string and, on a plain from_json, as a string that numpy parses to the same instant; the exact value round trip of temporal columns through JSON is taken with from_json(dtypes={column: original dtype}) (converter 'json_dtypes')",
    "Python's json module is the JSON reader (its Infinity token for a non-missing infinite float is accepted; a NaN token is a sentinel, the alphabets hold no non-missing NaN)",
    "datetime values stay inside the datetime64[ns] range because pandas stores them in that unit; pandas 2.2 / pyarrow 18 as installed are the trusted base",
    "dtype is not compared for date/datetime columns nor for columns without a non-missing value (the statement does not pin it)",
]
BOUND = {
    "quick": ("rows 1..3; one column: 9 families (bool,int,float,str,date,datetime[us],datetime[s],datetime[ms],datetime[ns]) over NA + 3 values "
              "(bool 2); two columns: all 36 ordered family pairs of bool/int/float/str/date/datetime[us] over NA + 3 values (bool 2) with "
              "rows 1..2 and over NA + 2 values with 3 rows; every mask; converters lod, json, json_dtypes (from_json with the dtype of every column), pandas, arrow"),
    "thorough": ("rows 1..4; one column: the 9 families over NA + 4..9 values (incl. inf, -0.0, int64 min, 2**53+1, 50-char / "
                 "non-ASCII / quote / newline / backslash / 'None' / 'nan' strings, year 1 and 9999 dates); two columns: all 36 ordered "
                 "family pairs over NA + 3 values (bool 2) with rows 1..3 and over NA + 2 values with 4 rows; every mask; "
                 "converters lod, json, json_dtypes (from_json with the dtype of every column), pandas, arrow"),
}
TIME_CAP = {"quick": 240, "thorough": 3000}
BOUND["quick"] += '; the one- and two-column frames of <= 2 rows also as the product of rbind (thorough: slice, deepcopy, Arrow round trip) and under a non-UTC time zone; the sign of a zero is part of a value'
BOUND["thorough"] += "; plus the additions listed for the quick tier"
EXPLANATION = ("Every execution runs the real exporter and importer; the reference is the list of Python cells read from the "
               "NumPy arrays the frame was built from. The intermediate object is inspected with the format's own null test.")

# ---------------------------------------------------------------------------
# alphabets. Tokens are JSON-native (floats and calendar values as strings).

SMALL = {
    # False is falsy: `x or None` style exporters lose it
    "bool": [False, True],
    # 0 is falsy; 2**53+1 is not a float64
    "int": [0, 9007199254740993, 1],
    # 0.0 falsy; 1.0 is integer-valued (must stay float); 1.5
    "float": ["0.0", "1.5", "1.0", "inf", "-0.0"],
    # ' ' is whitespace-only, 'nan' looks like a sentinel but is a value
    "str": ["a", "nan", " "],
    # epoch day 0, a leap day, a pre-epoch day
    "date": ["1970-01-01", "2020-02-29", "1969-12-31"],
    # ... and an instant outside the range of nanosecond timestamps (1677..2262), which pandas and Arrow default to
    "datetime": ["1970-01-01T00:00:00", "2020-02-29T23:59:59.999999", "1969-12-31T23:59:59", "1500-06-01T12:00:00.000001"],
    "datetime_s": ["1970-01-01T00:00:00", "2020-02-29T23:59:59", "1969-12-31T23:59:59"],
    "datetime_ms": ["1970-01-01T00:00:00", "2020-02-29T23:59:59.999", "1969-12-31T23:59:59"],
    "datetime_ns": ["1970-01-01T00:00:00", "2020-02-29T23:59:59.999999", "1969-12-31T23:59:59"],
}
WIDE = {
    "bool": [False, True],
    "int": [0, 9007199254740993, 1, -1, -9223372036854775808],
    "float": ["0.0", "1.5", "1.0", "inf", "-inf", "-0.0", "1e-300"],
    "str": ["a", "nan", " ", V.LONG_A, "日本", "None", 'q"r', "l1\nl2", "b\\s"],
    "date": ["1970-01-01", "2020-02-29", "1969-12-31", "0001-01-01", "9999-12-31"],
    "datetime": SMALL["datetime"] + ["2000-01-01T12:00:00", "2262-04-11T23:47:16.854775", "2500-01-01T00:00:00"],
    "datetime_s": SMALL["datetime_s"] + ["2000-01-01T12:00:00", "1677-09-21T00:12:44"],
    "datetime_ms": SMALL["datetime_ms"] + ["2000-01-01T12:00:00"],
    "datetime_ns": SMALL["datetime_ns"] + ["2000-01-01T12:00:00"],
}
PAIR_FAMS = ["bool", "int", "float", "str", "date", "datetime"]
SINGLE_FAMS = ["bool", "int", "float", "str", "date", "datetime", "datetime_s", "datetime_ms", "datetime_ns"]
DTYPE_FAMS = ("bool", "int", "float", "str")
UNITS = {"date": "D", "datetime": "us", "datetime_s": "s", "datetime_ms": "ms", "datetime_ns": "ns"}
CONVS = ["lod", "json", "pandas", "arrow"]


def nmax(tier):
    return 3 if tier == "quick" else 4


# ---------------------------------------------------------------------------
# construction and reference

def build_array(fam, toks):
    """The NumPy array dataiter holds for this column under the documented NA model."""
    has_na = any(t is None for t in toks)
    if fam == "bool":
        return V.np_array("obj" if has_na else "b1", toks)
    if fam == "int":
        if has_na:
            return np.array([np.nan if t is None else float(t) for t in toks], dtype="float64")
        return V.np_array("i8", toks)
    if fam == "float":
        return V.np_array("f8", toks)
    if fam == "str":
        return V.np_array("str", toks)
    if fam in UNITS:
        return np.array(["NaT" if t is None else t for t in toks], dtype=f"datetime64[{UNITS[fam]}]")
    raise ValueError(fam)


def strict_eq(a, b):
    """Cell equality: missing == missing; a bool only equals a bool; otherwise DESIGN 3.2."""
    if a is None or b is None:
        return a is None and b is None
    if isinstance(a, bool) != isinstance(b, bool):
        return False
    if isinstance(a, str) != isinstance(b, str):
        return False
    if isinstance(a, float) and isinstance(b, float) and a == 0 and b == 0:
        return math.copysign(1, a) == math.copysign(1, b)   # the sign of a zero is part of the value (1 / x tells them apart)
    return V.same_value(a, b)


def instant(x):
    """Microseconds since the epoch of a date / datetime / ISO string, or None."""
    try:
        if isinstance(x, str):
            if not x.strip():
                return None
            x = np.datetime64(x)
        elif isinstance(x, (datetime.date, datetime.datetime)):
            x = np.datetime64(x)
        else:
            return None
        if np.isnat(x):
            return None
        return int(x.astype("datetime64[us]").astype("int64"))
    except Exception:
        return None


def mask_class(toks):
    if not any(t is None for t in toks):
        return "no-NA"
    if all(t is None for t in toks):
        return "all-NA"
    return "first-NA" if toks[0] is None else "NA-not-first"


# ---------------------------------------------------------------------------
# the four converter pairs

def export(d, conv):
    if conv == "lod":
        return d.to_list_of_dicts()
    if conv in ("json", "json_dtypes", "json_dtypes1"):
        return d.to_json()
    if conv == "pandas":
        return d.to_pandas()
    if conv == "arrow":
        return d.to_arrow()
    raise ValueError(conv)


def import_(mid, conv, temporal_dtypes):
    if conv == "lod":
        return mid.to_data_frame()
    if conv == "json":
        return di.DataFrame.from_json(mid)
    if conv == "json_dtypes":
        return di.DataFrame.from_json(mid, dtypes=dict(temporal_dtypes))
    if conv == "json_dtypes1":
        # a dtype for the LAST column only (the order of the columns is not the order of the dtype map)
        return di.DataFrame.from_json(mid, dtypes=dict(temporal_dtypes[-1:]))
    if conv == "pandas":
        return di.DataFrame.from_pandas(mid)
    if conv == "arrow":
        return di.DataFrame.from_arrow(mid)
    raise ValueError(conv)


class _Bad(Exception):
    def __init__(self, clause, detail, col=None):
        self.clause, self.detail, self.col = clause, detail, col


def read_intermediate(mid, conv, names, nrow):
    """-> (digest, {name: [is_null per row]}); raises _Bad on a structural failure."""
    if conv == "lod":
        if not isinstance(mid, di.ListOfDicts):
            raise _Bad("intermediate-type", f"to_list_of_dicts returned {type(mid).__name__}")
        if len(mid) != nrow:
            raise _Bad("records", f"{len(mid)} items for {nrow} rows")
        for i, item in enumerate(mid):
            if not isinstance(item, dict) or list(item.keys()) != names:
                raise _Bad("fields", f"item {i} has keys {list(item.keys()) if isinstance(item, dict) else type(item).__name__}, expected {names}")
        nulls = {name: [item[name] is None for item in mid] for name in names}
        digest = tuple(tuple(V.tok(item[name]) for name in names) for item in mid)
        return digest, nulls
    if conv in ("json", "json_dtypes", "json_dtypes1"):
        if not isinstance(mid, str):
            raise _Bad("intermediate-type", f"to_json returned {type(mid).__name__}")
        consts = []

        def const(tok):
            consts.append(tok)
            return float(tok.replace("Infinity", "inf").replace("NaN", "nan"))
        try:
            data = json.loads(mid, parse_constant=const, object_pairs_hook=lambda pairs: pairs)
        except ValueError as e:
            raise _Bad("intermediate-type", f"to_json did not return JSON text: {e}")
        if "NaN" in consts:
            raise _Bad("null", f"JSON text holds the non-JSON sentinel NaN: {mid!r}")
        if not isinstance(data, list):
            raise _Bad("records", f"top-level JSON value is {type(data).__name__}, not an array")
        if len(data) != nrow:
            raise _Bad("records", f"{len(data)} records for {nrow} rows")
        for i, pairs in enumerate(data):
            keys = [k for k, v in pairs] if isinstance(pairs, list) else None
            if keys != names:
                raise _Bad("fields", f"record {i} has members {keys}, expected {names}")
        nulls = {name: [pairs[j][1] is None for pairs in data] for j, name in enumerate(names)}
        return mid, nulls
    if conv == "pandas":
        if not isinstance(mid, pd.DataFrame):
            raise _Bad("intermediate-type", f"to_pandas returned {type(mid).__name__}")
        if len(mid) != nrow:
            raise _Bad("records", f"{len(mid)} pandas rows for {nrow} rows")
        if list(mid.columns) != names or mid.shape[1] != len(names):
            raise _Bad("fields", f"pandas columns {list(mid.columns)}, expected {names}")
        nulls, digest = {}, []
        for j, name in enumerate(names):
            s = mid.iloc[:, j]
            nulls[name] = [bool(x) for x in pd.isna(s).tolist()]
            digest.append((str(s.dtype), tuple("null" if n else V.tok(x) for x, n in zip(s.tolist(), nulls[name]))))
        return tuple(digest), nulls
    if conv == "arrow":
        if not isinstance(mid, pa.Table):
            raise _Bad("intermediate-type", f"to_arrow returned {type(mid).__name__}")
        if mid.num_rows != nrow:
            raise _Bad("records", f"{mid.num_rows} Arrow rows for {nrow} rows")
        if list(mid.column_names) != names or mid.num_columns != len(names):
            raise _Bad("fields", f"Arrow columns {list(mid.column_names)}, expected {names}")
        nulls, digest = {}, []
        for j, name in enumerate(names):
            c = mid.column(j)
            if len(c) != nrow:
                raise _Bad("records", f"Arrow column {name!r} has {len(c)} values for {nrow} rows")
            nulls[name] = [bool(x) for x in c.is_null().to_pylist()]
            digest.append((str(c.type), tuple(V.tok(x) for x in c.to_pylist())))
        return tuple(digest), nulls
    raise ValueError(conv)


class Ctx:
    """One frame, built once from the case's tokens, and its reference cells."""

    def __init__(self, cols):
        self.cols = cols
        self.names = [c[0] for c in cols]
        self.nrow = len(cols[0][2])
        self.arrays, self.ref, self.mask = {}, {}, {}
        for name, fam, toks in cols:
            a = build_array(fam, toks)
            self.arrays[name] = a
            self.ref[name] = V.cells(a)
            self.mask[name] = [x is None for x in self.ref[name]]
            if self.mask[name] != [t is None for t in toks]:
                raise RuntimeError(f"harness: tokens {toks!r} and built array {a!r} disagree on missing positions")
        self.d = di.DataFrame({name: self.arrays[name].copy() for name in self.names})
        if os.environ.get("MC_ARRAY_FORM") in V.PROVENANCE:
            # provenance: the frame that is converted is itself the product of rbind / slice / deepcopy / an Arrow round trip
            self.d = V.frame_via(self.d, os.environ["MC_ARRAY_FORM"])
        if list(self.d.keys()) != self.names or any(self.d[name].dtype != self.arrays[name].dtype for name in self.names):
            raise RuntimeError(f"harness: constructor did not keep the columns as given: {V.frame_key(self.d)!r}")
        self.before = V.frame_key(self.d)
        # json_dtypes: the type of EVERY column is handed to from_json (str for string columns, as a caller writes it;
        # the NumPy dtype name otherwise) - needed for temporal columns, harmless for the others
        self.temporal = [(name, str if fam == "str" else str(self.arrays[name].dtype)) for name, fam, toks in cols]
        self.fam_of = {name: fam for name, fam, toks in cols}
        self.cls_of = {name: f"{fam}:{mask_class(toks)}" for name, fam, toks in cols}


def observe(ctx, conv):
    """Execute one (frame, converter pair). -> dict(problems, states, outcome)."""
    names, nrow, arrays, ref, mask, d = ctx.names, ctx.nrow, ctx.arrays, ctx.ref, ctx.mask, ctx.d
    before, temporal, fam_of = ctx.before, ctx.temporal, ctx.fam_of
    out = {"problems": [], "states": [before], "outcome": None, "before": before}
    probs = out["problems"]
    colclass = ctx.cls_of.get

    # ---- export ---------------------------------------------------------
    try:
        mid = export(d, conv)
    except Exception as e:
        probs.append(("raised", f"export raised {type(e).__name__}: {e}", "export"))
        out["outcome"] = (conv, "export-raised", type(e).__name__)
        return out
    try:
        digest, nulls = read_intermediate(mid, conv, names, nrow)
    except _Bad as b:
        probs.append((b.clause, b.detail, "intermediate"))
        digest, nulls = None, None
    if nulls is not None:
        out["states"].append((conv, "intermediate", digest))
        for name in names:
            if nulls[name] != mask[name]:
                probs.append(("null", f"column {name!r} ({arrays[name].dtype}, cells {ref[name]}): the intermediate {conv} object shows null at "
                              f"{[i for i, x in enumerate(nulls[name]) if x]} but the missing positions are {[i for i, x in enumerate(mask[name]) if x]}",
                              colclass(name)))
    # ---- import ---------------------------------------------------------
    try:
        back = import_(mid, conv, temporal)
    except Exception as e:
        probs.append(("raised", f"import raised {type(e).__name__}: {e}", "import"))
        out["outcome"] = (conv, "import-raised", type(e).__name__, digest)
        return out
    if not isinstance(back, di.DataFrame):
        probs.append(("malformed-result", f"import returned {type(back).__name__}", "import"))
        out["outcome"] = (conv, "not-a-frame")
        return out
    try:
        after = V.frame_key(back)
    except Exception as e:
        probs.append(("malformed-result", f"result frame cannot be read: {type(e).__name__}: {e}", "import"))
        out["outcome"] = (conv, "unreadable")
        return out
    out["states"].append(after)
    out["outcome"] = (conv, after, digest)
    got_names = list(back.keys())
    if got_names != names:
        probs.append(("names", f"columns after the round trip {got_names}, expected {names}", "names"))
        return out
    for name in names:
        fam = fam_of[name]
        col = dict.__getitem__(back, name)
        got = V.cells(col)
        want = ref[name]
        where = f"column {name!r} ({arrays[name].dtype} {want}) came back as {V.dtype_name(col)} {got}"
        if len(got) != nrow:
            probs.append(("rows", where, colclass(name)))
            continue
        if [x is None for x in got] != mask[name]:
            probs.append(("missing", where + ": missing positions differ", colclass(name)))
            continue
        if conv == "json" and fam in UNITS:
            # JSON has no temporal type; the text must denote the same instant (see ASSUMPTIONS)
            ok = all(w is None or (isinstance(g, str) and instant(g) is not None and instant(g) == instant(w))
                     for g, w in zip(got, want))
        else:
            ok = all(strict_eq(g, w) for g, w in zip(got, want))
        if not ok:
            probs.append(("values", where + ": values differ", colclass(name)))
            continue
        if fam in DTYPE_FAMS and not all(mask[name]):
            if V.dtype_name(col) != V.dtype_name(arrays[name]):
                probs.append(("dtype", where + f": dtype {V.dtype_name(col)} expected {V.dtype_name(arrays[name])}", colclass(name)))
    return out


def convs_for(cols):
    convs = list(CONVS)
    convs.insert(2, "json_dtypes")
    if len(cols) >= 2 and not any(fam in UNITS for name, fam, toks in cols[:-1]):
        convs.insert(3, "json_dtypes1")
    return convs


def earlier_calls_with_keywords():
    """Unrelated exports made earlier in the process WITH keyword arguments (what a caller passes must stay that
    call's business: defaults of later calls are the documented ones)."""
    other = di.DataFrame(zz=[1, 2], aa=["x", None])
    other.to_json(sort_keys=True, indent=4, ensure_ascii=True)
    other.to_list_of_dicts().to_json(sort_keys=True, indent=None)
    try:
        other.to_pandas()
        other.to_arrow()
    except Exception:
        pass


def check_case(case, rec):
    cols = case["cols"]
    nontrivial = any(t is None for name, fam, toks in cols for t in toks)
    if case.get("prior"):
        earlier_calls_with_keywords()
    ctx = Ctx(cols)
    for conv in case.get("convs") or convs_for(cols):
        obs = observe(ctx, conv)
        rec.case((obs["before"], conv), nontrivial)
        rec.trans()
        for s in obs["states"]:
            rec.state(s)
        rec.outcome(obs["outcome"])
        if obs["problems"]:
            # DESIGN section 2: a failing case is executed a second time (on a fresh frame); a
            # divergence is uncaptured nondeterminism (infrastructure), not a violation
            again = observe(Ctx(cols), conv)
            if again["problems"] != obs["problems"] or again["outcome"] != obs["outcome"]:
                # depends on what ran before in this process (hidden state) or is nondeterministic:
                # the harness re-executes every reported violation (case, then whole shard in a fresh process) and decides
                rec.count("diverged_on_immediate_reexecution")
            one = {"cols": cols, "convs": [conv]}
            if case.get("prior"):
                one["prior"] = True
            for clause, detail, cls in obs["problems"]:
                rec.violation(conv, clause, one, detail, cls=cls)
        if V.frame_key(ctx.d) != ctx.before:
            # not this property's business (C06), but the next converter must see the frame as described
            rec.count("receiver_changed_by_" + conv)
            ctx = Ctx(cols)


def classify(v):
    return None


# ---------------------------------------------------------------------------
# enumeration

def columns(fam, alpha, n, first=None):
    """All token sequences of length n over {NA} + alpha (every mask x every value assignment)."""
    full = [None] + list(alpha)
    if first is None:
        for toks in itertools.product(full, repeat=n):
            yield list(toks)
    else:
        for rest in itertools.product(full, repeat=n - 1):
            yield [full[first]] + list(rest)


def shards(tier):
    N = nmax(tier)
    single_alpha = "small" if tier == "quick" else "wide"
    out = []
    for n in range(1, N + 1):
        for fam in SINGLE_FAMS:
            k = len((SMALL if single_alpha == "small" else WIDE)[fam]) + 1
            if k ** n > 1500:
                for first in range(k):
                    out.append({"part": "single", "fam": fam, "alpha": single_alpha, "n": n, "first": first})
            else:
                out.append({"part": "single", "fam": fam, "alpha": single_alpha, "n": n, "first": None})
        for f1 in PAIR_FAMS:
            for f2 in PAIR_FAMS:
                # NA + k values per column. k = 3 up to 2 rows (quick) / 3 rows (thorough), else the first 2 values
                k = 3 if n <= (2 if tier == "quick" else 3) else 2
                out.append({"part": "pair", "f1": f1, "f2": f2, "n": n, "first": None, "k": k})
    # size ladder: long columns whose leading run is missing (a dtype guessed from a prefix of the records is wrong here)
    for fam in PAIR_FAMS:
        out.append({"part": "long", "fam": fam, "n": 0})
    # temporal columns once more with a local time zone that is not UTC: datetime64 values are naive, no conversion
    # may go through the machine's local time
    for sh in list(out):
        if sh["part"] == "single" and sh["n"] <= 2 and any(t in str(sh["fam"]).lower() for t in ("date", "time", "ns", "us", "ms", "day")):
            out.append(dict(sh, __env__={"TZ": "America/St_Johns"}))
    for sh in list(out):
        if "__env__" not in sh and ((sh["part"] == "single" and sh["n"] <= 2) or (sh["part"] == "pair" and sh["n"] == 2)):
            for form in (("viarbind",) if tier == "quick" else ("viarbind", "viaslice", "viadeepcopy", "viaarrow")):
                out.append(dict(sh, __env__={"MC_ARRAY_FORM": form}))
    return out


def long_cases(fam):
    alpha = SMALL[fam]
    for length, lead in ((17, 16), (101, 100), (130, 101), (1025, 1001), (130, 0)):
        toks = [None] * lead + [alpha[i % len(alpha)] for i in range(length - lead)]
        yield {"cols": [["x", fam, toks]]}
        yield {"cols": [["b", fam, toks], ["a", "int", list(range(length))]]}


def run_shard(shard, rec):
    n = shard["n"]
    if shard["part"] == "long":
        for case in long_cases(shard["fam"]):
            check_case(case, rec)
        rec.sample({"long": shard["fam"], "lengths": [17, 101, 130, 1025]})
        return
    if shard["part"] == "single":
        fam = shard["fam"]
        alpha = (SMALL if shard["alpha"] == "small" else WIDE)[fam]
        cases = [{"cols": [["x", fam, toks]]} for toks in columns(fam, alpha, n, shard["first"])]
    else:
        f1, f2, k = shard["f1"], shard["f2"], shard["k"]
        second = list(columns(f2, SMALL[f2][:k], n))
        # names in non-alphabetical order: a sorted-keys export/import is visible
        cases = ({"cols": [["b", f1, t1], ["a", f2, t2]], "prior": True}
                 for t1 in columns(f1, SMALL[f1][:k], n, shard["first"]) for t2 in second)
    for i, case in enumerate(cases):
        check_case(case, rec)
        if i % 61 == 37 or (i == 1 and n == 1):
            rec.sample(case)
