# -*- coding: utf-8 -*-
"""
C15 - ListOfDicts transformations match plain list-of-dict semantics.

E1: every list of length 0..N over the 15-item alphabet
{a absent/None/1/2} x {b absent/None/'x'} x every argument of every
transformation (predicates, key=value pairs, sort keys x directions, key
subsets, indices, n, the full slice grid). Each execution runs on a freshly
built ListOfDicts. E2: breadth-first search over chains of these operations
from a few start lists, the state being (item contents, alias pattern),
rebuilt by replaying the history on fresh objects; every new last step is
compared with the reference.

Oracle (mc/ref/c15_lod_ref.py): the same operation on a Python list of the
same dict objects. Items a method hands on are compared by identity (and must
still have their contents), items it builds are compared by contents; the
result must be a ListOfDicts and every item must give attribute access.
"""

import contextlib
import io
import itertools
import json

import dataiter
from attd import AttributeDict
from dataiter import ListOfDicts

from mc.ref import c15_lod_ref as R

ID = "C15"
TITLE = "ListOfDicts transformations match plain list-of-dict semantics"
RULE = ("cases = (list, operation, arguments) enumerated exhaustively, plus every last step of every operation chain "
        "reached breadth-first; distinct = digest of (item contents + alias pattern, operation with arguments); "
        "non-trivial = list has >= 2 items and holds a None value, a duplicate item or items with different key sets")
ASSUMPTIONS = [
    "'+ and extend produce the same item sequence as the same operation on a Python list' is read as producing a list of their own, as [] + other does: the result being the argument object itself is reported (the receiver itself is not - group_by-style returns are outside this property)",
    "item values outside {None, 1, 2, 'x'} (plus the few constants the modify/fill arguments write) and lists longer than the bound are not explored in E1; chains reach longer lists only through +, extend and *",
    "the six editing methods (select, unselect, rename, modify, modify_if, fill_missing_keys) are compared by item contents only: the statement does not say whether they edit items in place or rebuild them",
    "where the statement is silent and plain Python raises (key=value filter or unique(*keys) on an item lacking the key) raising, the .get answer and 'an absent key equals nothing' are all accepted; sort on such lists, unique() on items with no common key, rename onto a name that stays, filter() without condition and negative n for head/tail are excluded (DESIGN 3.5)",
    "unique() without arguments on ragged items may mean the common keys or the whole item; both are accepted (they coincide when all items have the same keys)",
    "key order inside an item is not compared",
    "head()/tail() without n use the public setting dataiter.DEFAULT_PEEK_ITEMS",
]
BOUND = {
    "quick": "all lists of length 0..3 over 15 items x all operations/arguments incl. the slice grid start,stop in {None,-n-1..n+1} x step in {None,1,2,-1}; chains to depth 2 from 6 start lists over a 69-operation alphabet, X-Y-X chains of depth 3, and the same start lists with a history (grouped, grouped and aggregated, product of filter / deepcopy)",
    "thorough": "all lists of length 0..4 over 15 items x all operations/arguments incl. the full slice grid; chains to depth 3 from 6 start lists over a 69-operation alphabet, plus the X-Y-X chains and start-list histories of the quick tier",
}
TIME_CAP = {"quick": 240, "thorough": 2400}

A_VALUES = [R.ABSENT, None, 1, 2]
B_VALUES = [R.ABSENT, None, "x"]


def _item(a, b):
    t = {}
    if a is not R.ABSENT:
        t["a"] = a
    if b is not R.ABSENT:
        t["b"] = b
    return t


ITEMS = [_item(a, b) for a in A_VALUES for b in B_VALUES]
# same key set as {"a": 1, "b": "x"} but inserted in the other order (key order must not matter to any method);
# -1 and -2 have equal Python hashes (keys must be compared, not their hashes)
ITEMS += [{"b": "x", "a": 1}, {"a": -1, "b": "x"}, {"a": -2, "b": "x"}]

STARTS = [
    [{"a": 1, "b": "x"}, {"a": None, "b": "x"}, {"a": 1, "b": None}],
    [{"a": 2}, {"a": 1, "b": "x"}, {}],
    [{"a": 1, "b": "x"}, {"a": 1, "b": "x"}, {"a": 2, "b": None}],
    [],
    [{"a": None, "b": None}],
    [{"b": "x"}, {"a": 2, "b": "x"}, {"a": None}, {"a": 2, "b": "x"}],
]

SYMBOLIC = {
    "len": lambda n: n,
    "len+1": lambda n: n + 1,
    "len-1": lambda n: n - 1,
    "-len": lambda n: -n,
    "-len-1": lambda n: -n - 1,
}


def nmax(tier):
    return 3 if tier == "quick" else 4


def depth(tier):
    return 2 if tier == "quick" else 3


# ---------------------------------------------------------------------------
# operation alphabets

KV_SETS = ([[["a", v]] for v in (None, 1, 2)] + [[["b", v]] for v in (None, "x")]
           + [[["a", va], ["b", vb]] for va in (None, 1, 2) for vb in (None, "x")]
           + [[["b", vb], ["a", va]] for va in (None, 1, 2) for vb in (None, "x")]
           + [[["a", [1, 2]]], [["a", []]], [["b", ["x", None]]]])   # a list as the value of a condition is a value like any other
SORT_KEYS = ([[]] + [[["a", d]] for d in (1, -1)] + [[["b", d]] for d in (1, -1)]
             + [[["a", d1], ["b", d2]] for d1 in (1, -1) for d2 in (1, -1)]
             + [[["b", d1], ["a", d2]] for d1 in (1, -1) for d2 in (1, -1)])
KEY_SETS = [[], ["a"], ["b"], ["a", "b"], ["b", "a"], ["c"], ["a", "c"]]
RENAMES = [[], [["c", "a"]], [["c", "b"]], [["c", "a"], ["d", "b"]], [["a", "b"], ["b", "a"]],
           [["c", "z"]], [["a", "a"]], [["a", "b"]]]
MODIFIES = [[], [["a", "const0"]], [["c", "constF"]], [["a", "const7"]], [["a", "none"]], [["c", "get_a"]], [["a", "get_b"]], [["a", "a_inc"]],
            [["c", "attr_a"]], [["b", "nkeys"]], [["a", "const7"], ["c", "get_b"]], [["c", "const7"], ["d", "none"]]]
MODIFY_IFS = [[], [["a", "const0"]], [["a", "const7"]], [["c", "get_a"]], [["a", "a_inc"]], [["a", "const7"], ["c", "const7"]], [["c", "nkeys_reentrant"]]]
FILLS = [[], [["a", None]], [["a", 0]], [["b", "y"]], [["c", 0]], [["a", 0], ["b", "y"]]]
NEW_ITEM = {"a": 2, "b": "x"}


def e1_ops(n):
    """All operations for a list of length n (arguments that depend on n resolved)."""
    ops = []
    for name in ("filter", "filter_out"):
        for p in ("true", "false", "a_eq_1", "a_is_none", "a_value", "b_value", "a_eq_1_reentrant"):
            ops.append({"op": name, "pred": p})
        for kv in KV_SETS:
            ops.append({"op": name, "kv": kv})
        # a function AND key=value pairs in one call (the reference compares the pairs with .get: absent like None)
        for p in ("a_eq_1", "a_is_none"):
            for kv in ([["b", "x"]], [["b", None]], [["a", 1]]):
                ops.append({"op": name, "pred": p, "kv": kv})
    for keys in SORT_KEYS:
        ops.append({"op": "sort", "keys": keys})
    for keys in KEY_SETS[:5]:
        ops.append({"op": "unique", "keys": keys})
    for keys in KEY_SETS:
        ops.append({"op": "select", "keys": keys})
        ops.append({"op": "unselect", "keys": keys})
    for pairs in RENAMES:
        ops.append({"op": "rename", "pairs": pairs})
    for s in MODIFIES:
        ops.append({"op": "modify", "set": s})
    for p in ("true", "false", "a_eq_1", "a_is_none"):
        for s in MODIFY_IFS:
            ops.append({"op": "modify_if", "pred": p, "set": s})
    for kv in FILLS:
        ops.append({"op": "fill", "kv": kv})
    for item, form in (({}, "dict"), ({"a": 1, "b": "x"}, "dict"), ({"c": 5}, "dict"), ({"a": None, "b": None}, "attd")):
        ops.append({"op": "append", "item": item, "as": form})
    for other in ([], [{"a": 1}], [{"a": 2, "b": None}, {}]):
        ops.append({"op": "extend", "other": other, "as": "list"})
        ops.append({"op": "extend", "other": other, "as": "lod"})
        ops.append({"op": "add", "other": other, "as": "lod"})
    ops.append({"op": "extend", "other": [{"a": 1}, {"b": "x"}], "as": "iter"})
    ops.append({"op": "extend", "other": [{"a": 1}, {"b": "x"}, {"a": 2}], "as": "mixed"})
    ops.append({"op": "extend", "other": "self", "as": "self"})
    ops.append({"op": "add", "other": "self", "as": "self"})
    for k in (-1, 0, 1, 2):
        ops.append({"op": "mul", "k": k})
        ops.append({"op": "rmul", "k": k})
    ops.append({"op": "reverse"})
    for i in range(-n - 1, n + 2):
        ops.append({"op": "insert", "index": i, "item": NEW_ITEM, "as": "dict"})
        ops.append({"op": "insert", "index": i, "item": NEW_ITEM, "as": "attd"})
        ops.append({"op": "index", "i": i})
    for k in [None] + list(range(0, n + 2)):
        ops.append({"op": "head", "n": k})
        ops.append({"op": "tail", "n": k})
    bounds = [None] + list(range(-n - 1, n + 2))
    for start in bounds:
        for stop in bounds:
            for step in (None, 1, 2, -1):
                ops.append({"op": "slice", "start": start, "stop": stop, "step": step})
    return ops


def chain_ops():
    """The (length-independent) operation alphabet of the chains."""
    ops = []
    for name in ("filter", "filter_out"):
        ops.append({"op": name, "pred": "a_eq_1"})
        ops.append({"op": name, "pred": "a_is_none"})
    # (a list as the value of a condition is a value: equal to no item here, not "any of these")
    ops += [{"op": "filter", "kv": [["a", [1, 2]]]}, {"op": "filter_out", "kv": [["a", [1, None]]]}, {"op": "filter", "kv": [["a", []]]}]
    ops += [{"op": "filter", "kv": [["a", 1]]}, {"op": "filter_out", "kv": [["a", None]]},
            {"op": "filter", "kv": [["a", 1], ["b", "x"]]}, {"op": "filter_out", "kv": [["b", "x"], ["a", 2]]}]
    for keys in ([["a", 1]], [["a", -1]], [["b", 1]], [["b", -1], ["a", 1]], [["a", -1], ["b", 1]]):
        ops.append({"op": "sort", "keys": keys})
    for keys in ([], ["a"], ["b"], ["a", "b"]):
        ops.append({"op": "unique", "keys": keys})
    for keys in (["a"], ["b"], ["a", "c"]):
        ops.append({"op": "select", "keys": keys})
    for keys in (["a"], ["b"]):
        ops.append({"op": "unselect", "keys": keys})
    for pairs in ([["c", "a"]], [["a", "b"]], [["a", "b"], ["b", "a"]]):
        ops.append({"op": "rename", "pairs": pairs})
    for s in ([["a", "const7"]], [["c", "get_a"]], [["a", "a_inc"]], [["b", "nkeys"]]):
        ops.append({"op": "modify", "set": s})
    ops += [{"op": "modify_if", "pred": "a_is_none", "set": [["a", "const7"]]},
            {"op": "modify_if", "pred": "a_eq_1", "set": [["c", "get_b"]]},
            {"op": "modify_if", "pred": "a_eq_1", "set": [["a", "a_inc"]]},
            {"op": "modify_if", "pred": "a_is_none", "set": [["a", "const7"], ["c", "const7"]]}]
    for kv in ([], [["a", 0]], [["b", "y"]]):
        ops.append({"op": "fill", "kv": kv})
    ops += [{"op": "append", "item": {"a": 1, "b": "x"}, "as": "dict"},
            {"op": "append", "item": {}, "as": "dict"},
            {"op": "append", "item": {"a": None, "b": None}, "as": "attd"},
            {"op": "extend", "other": [{"a": 2, "b": None}, {}], "as": "list"},
            {"op": "extend", "other": "self", "as": "self"},
            {"op": "add", "other": [{"a": 1}], "as": "lod"},
            {"op": "add", "other": "self", "as": "self"},
            {"op": "mul", "k": 0}, {"op": "mul", "k": 2}, {"op": "rmul", "k": 2},
            {"op": "reverse"}]
    for i in (0, 1, -1, "len", "len+1", "-len-1"):
        ops.append({"op": "insert", "index": i, "item": NEW_ITEM, "as": "dict"})
    for k in (None, 0, 1, "len-1"):
        ops.append({"op": "head", "n": k})
        ops.append({"op": "tail", "n": k})
    for start, stop, step in ((None, None, 2), (None, None, -1), (1, None, None), (None, -1, None),
                              (-2, None, None), (1, "len", 1), ("-len-1", 2, None), (None, 0, -1)):
        ops.append({"op": "slice", "start": start, "stop": stop, "step": step})
    return ops


_E1_CACHE = {}
_CHAIN_CACHE = []


def e1_ops_keyed(n):
    if n not in _E1_CACHE:
        _E1_CACHE[n] = [(op, opkey(op)) for op in e1_ops(n)]
    return _E1_CACHE[n]


def opkey(op):
    return json.dumps(op, sort_keys=True)


def concretize(op, n):
    out = None
    for field in ("index", "n", "start", "stop", "i"):
        v = op.get(field)
        if isinstance(v, str):
            if out is None:
                out = dict(op)
            out[field] = SYMBOLIC[v](n)
    return op if out is None else out


# ---------------------------------------------------------------------------
# states

def freeze(c):
    return tuple(sorted(c.items()))


def alias_pattern(objs):
    first = {}
    out = []
    for i, o in enumerate(objs):
        out.append(first.setdefault(id(o), i))
    return out


def state_key(objs):
    first = {}
    return tuple((freeze(o), first.setdefault(id(o), i)) for i, o in enumerate(objs))


def nontrivial(m):
    if len(m) < 2:
        return False
    keysets = {frozenset(c) for c in m}
    if len(keysets) > 1:
        return True
    if any(v is None for c in m for v in c.values()):
        return True
    return len({freeze(c) for c in m}) < len(m)


def build(items, alias=None):
    """A fresh ListOfDicts from JSON-able item tokens (and an alias pattern)."""
    if not alias or list(alias) == list(range(len(items))):
        return ListOfDicts([dict(t) for t in items])
    uniq = {}
    seq = []
    for i in range(len(items)):
        j = alias[i]
        if j not in uniq:
            uniq[j] = AttributeDict(items[j])
        seq.append(uniq[j])
    return ListOfDicts(seq, as_is=True)


def state_case(objs, contents, op):
    """The minimal replayable case: this receiver, this one operation."""
    case = {"items": [dict(c) for c in contents], "ops": [op]}
    alias = alias_pattern(objs)
    if alias != list(range(len(objs))):
        case["alias"] = alias
    return case


# ---------------------------------------------------------------------------
# driver

def build_args(op, d, objs, m):
    args = {}
    o = op["op"]
    if o in ("append", "insert"):
        if op["as"] == "attd":
            item = AttributeDict(op["item"])
            args["item"] = item
            args["item_entry"] = (item, dict(op["item"]))
        else:
            args["item"] = dict(op["item"])
            args["item_entry"] = (None, dict(op["item"]))
    elif o in ("extend", "add"):
        form = op["as"]
        if form == "self":
            args["other"] = d
            args["other_entries"] = list(zip(objs, m))
        elif form == "lod":
            other = ListOfDicts([dict(t) for t in op["other"]])
            args["other"] = other
            args["other_entries"] = [(x, dict(x)) for x in list(other)]
        elif form == "mixed":
            # a plain list whose FIRST element is an attribute dict already and whose later elements are plain dicts
            first = AttributeDict(op["other"][0])
            args["other"] = [first] + [dict(t) for t in op["other"][1:]]
            args["other_entries"] = [(None, dict(t)) for t in op["other"]]
        else:
            plain = [dict(t) for t in op["other"]]
            args["other"] = iter(plain) if form == "iter" else plain
            args["other_entries"] = [(None, dict(t)) for t in op["other"]]
    return args


def apply(d, op, args):
    o = op["op"]
    if o in ("filter", "filter_out"):
        f = d.filter if o == "filter" else d.filter_out
        if "pred" in op and "kv" in op:
            return f(R.PREDS[op["pred"]], **{k: v for k, v in op["kv"]})
        if "pred" in op:
            return f(R.PREDS[op["pred"]])
        return f(**{k: v for k, v in op["kv"]})
    if o == "sort":
        return d.sort(**{k: v for k, v in op["keys"]})
    if o == "unique":
        return d.unique(*op["keys"])
    if o == "select":
        return d.select(*op["keys"])
    if o == "unselect":
        return d.unselect(*op["keys"])
    if o == "rename":
        return d.rename(**{to: frm for to, frm in op["pairs"]})
    if o == "modify":
        return d.modify(**{k: R.IMPL_FUNCS[f] for k, f in op["set"]})
    if o == "modify_if":
        return d.modify_if(R.PREDS[op["pred"]], **{k: R.IMPL_FUNCS[f] for k, f in op["set"]})
    if o == "fill":
        return d.fill_missing_keys(**{k: v for k, v in op["kv"]})
    if o == "append":
        return d.append(args["item"])
    if o == "extend":
        return d.extend(args["other"])
    if o == "add":
        return d + args["other"]
    if o == "mul":
        return d * op["k"]
    if o == "rmul":
        return op["k"] * d
    if o == "reverse":
        return d.reverse()
    if o == "insert":
        return d.insert(op["index"], args["item"])
    if o == "head":
        return d.head() if op["n"] is None else d.head(op["n"])
    if o == "tail":
        return d.tail() if op["n"] is None else d.tail(op["n"])
    if o == "slice":
        return d[slice(op["start"], op["stop"], op["step"])]
    if o == "index":
        return d[op["i"]]
    raise ValueError(f"unknown operation {o!r}")


def attr_ok(g):
    """Does the item give attribute access to its keys?"""
    try:
        for k, v in g.items():
            w = getattr(g, k)
            if w is not v and w != v:
                return False
        if not g:
            g["p_"] = 1
            try:
                return g.p_ == 1
            finally:
                del g["p_"]
        return True
    except Exception:
        return False


def describe(seq, objs):
    where = {}
    for i, o in enumerate(objs):
        where.setdefault(id(o), i)
    parts = []
    for x in seq:
        if isinstance(x, tuple):
            obj, cont = x
            tag = "new" if obj is None else (f"#{where[id(obj)]}" if id(obj) in where else "arg")
        else:
            cont = x
            tag = f"#{where[id(x)]}" if id(x) in where else "new"
        try:
            body = repr(dict(cont))
        except Exception:
            body = repr(cont)
        parts.append(f"{tag}{body}")
    return "[" + ", ".join(parts) + "]"


def mismatch(got, entries):
    """None when the items `got` are exactly `entries`, else (clause, text)."""
    if len(got) != len(entries):
        return ("items", "length differs")
    for k, (obj, cont) in enumerate(entries):
        if obj is not None and got[k] is not obj:
            return ("items", f"position {k} does not hold the expected item object")
    for k, (obj, cont) in enumerate(entries):
        g = got[k]
        if not isinstance(g, dict) or dict(g) != cont:
            return ("contents", f"position {k} has contents {g!r}")
    return None


class Step:
    """Outcome of one executed step."""
    __slots__ = ("status", "out")

    def __init__(self, status, out=None):
        self.status = status  # "ok", "raised", "violation", "na"
        self.out = out


def step(d, op, rec, confirm=True, fallback=None, pre_key=None, okey=None, outcomes=None):
    objs = list(d)
    m = R.model_of(objs)
    op = concretize(op, len(objs))
    if not R.applicable(op, m):
        rec.count("not_applicable")
        return Step("na")
    name = op["op"]
    if pre_key is None:
        pre_key = state_key(objs)
    if okey is None:
        okey = opkey(op)
    rec.state(pre_key)
    rec.case((pre_key, okey), nontrivial(m))
    rec.trans()
    before = [dict(c) for c in m]
    args = build_args(op, d, objs, m)
    exp = R.reference(op, objs, m, args, dataiter.DEFAULT_PEEK_ITEMS)

    def fail(clause, detail):
        single = state_case(objs, before, op)
        report(rec, name, clause, single, detail, confirm, fallback)
        return Step("violation")

    def note(outcome):
        h = hash(outcome)
        if outcomes is None:
            rec.outcome(outcome)
        elif h not in outcomes:
            outcomes.add(h)
            rec.outcome(outcome)

    try:
        out = apply(d, op, args)
    except Exception as e:
        if exp.may_raise or exp.must_raise:
            note((name, "raised"))
            rec.count("accepted_exceptions")
            return Step("raised")
        want = describe(exp.alts[0], objs) if exp.alts else "?"
        return fail("raised", f"{name} raised {type(e).__name__}: {e}; expected {want}")
    if exp.must_raise:
        return fail("not-raised", f"{name} returned {out!r} where the list operation raises IndexError")
    if exp.single:
        obj, cont = exp.alts[0][0]
        if out is not obj:
            return fail("items", f"d[{op['i']}] is not the item at that position: got {out!r}")
        if not attr_ok(out):
            return fail("attribute-access", f"d[{op['i']}] gives no attribute access")
        note((name, op["i"] % len(objs)))
        return Step("ok")
    if not isinstance(out, ListOfDicts):
        return fail("type", f"{name} returned a {type(out).__name__}, not a ListOfDicts")
    if name in ("extend", "add") and out is args.get("other") and out is not d:
        # [] + chunk and list(chunk) are new lists: handing the ARGUMENT back as the result makes every later list-level
        # edit of one (l[i] = item, list.append) an edit of the other's item sequence (seeded C15-r12-1)
        return fail("result-is-argument", f"{name} returned its argument object itself, not a new list")
    got = list(out)
    bad = None
    for alt in exp.alts:
        bad = mismatch(got, alt)
        if bad is None:
            break
    if bad is not None:
        # report against the first (primary) alternative
        bad = mismatch(got, exp.alts[0])
        detail = (f"{name} {okey if len(okey) < 200 else name} on {describe(objs, objs)} with contents {before!r}: "
                  f"got {describe(got, objs)} expected {describe(exp.alts[0], objs)} ({bad[1]})")
        return fail(bad[0], detail)
    for k, g in enumerate(got):
        if not attr_ok(g):
            return fail("attribute-access", f"{name}: result item {k} {g!r} ({type(g).__name__}) gives no attribute access")
    where = {}
    for i, o in enumerate(objs):
        where.setdefault(id(o), i)
    note((name, tuple((where.get(id(g), -1), freeze(g)) for g in got)))
    rec.state(state_key(got))
    return Step("ok", out)


def report(rec, name, clause, single, detail, confirm, fallback):
    """Record a violation after executing the minimal case a second time."""
    if not confirm:
        rec.violation(name, clause, single, detail)
        return
    from mc.harness import Rec
    probe = Rec(ID, None)
    run_case(single, probe, confirm=False)
    if any(v["op"] == name and v["clause"] == clause for v in probe.violations):
        rec.violation(name, clause, single, detail)
        return
    if fallback is not None:
        probe = Rec(ID, None)
        run_case(fallback, probe, confirm=False)
        if any(v["op"] == name and v["clause"] == clause for v in probe.violations):
            rec.count("chain_violation_not_minimised")
            rec.violation(name, clause, fallback, detail)
            return
    # depends on what ran before in this process (hidden state) or is nondeterministic:
    # the harness re-executes every reported violation (case, then whole shard in a fresh process) and decides
    rec.count("diverged_on_immediate_reexecution")
    rec.violation(name, clause, single, detail)


def run_case(case, rec, confirm=True, outcomes=None):
    """Execute one case. Returns the canonical key of the final state of a chain (or None)."""
    items = case["items"]
    alias = case.get("alias")
    if "chain" in case:
        chain = case["chain"]
        check_from = case.get("check_from", 0)
        d = build(items, alias)
        via = case.get("start_via")
        if via:
            # provenance: the list the chain starts from has a HISTORY that leaves its items as they are - it was grouped
            # (group_by marks and returns the list itself), grouped and aggregated, or is the product of a filter / a copy
            if via == "grouped":
                d = d.group_by("a") if all("a" in x for x in d) else d
            elif via == "aggregated":
                if all("a" in x for x in d):
                    d.group_by("a").aggregate(n=len)
            elif via == "filtered":
                d = d.filter(lambda x: True)
            elif via == "deepcopied":
                d = d.deepcopy()
            else:
                raise ValueError(via)
        for k, op in enumerate(chain):
            if k < check_from:
                # already compared with the reference when it was the last step of a shorter chain
                cop = concretize(op, len(d))
                d = apply(d, cop, build_args(cop, d, list(d), R.model_of(list(d))))
                continue
            fallback = {"items": items, "chain": chain[:k + 1]}
            if via:
                fallback["start_via"] = via
            if alias:
                fallback["alias"] = alias
            s = step(d, op, rec, confirm=confirm, fallback=fallback, outcomes=outcomes)
            if s.status != "ok" or s.out is None:
                return None
            d = s.out
        return state_key(list(d))
    pre_key = None
    for op in case["ops"]:
        d = build(items, alias)
        if pre_key is None:
            pre_key = state_key(list(d))
        step(d, op, rec, confirm=confirm, pre_key=pre_key, outcomes=outcomes)
    return None


def check_case(case, rec):
    sink = io.StringIO()
    with contextlib.redirect_stdout(sink):
        return run_case(case, rec)


# ---------------------------------------------------------------------------
# exploration

def shards(tier):
    n = nmax(tier)
    out = [{"part": "lists", "n": [0, 1, 2], "prefix": []}]
    for first in range(len(ITEMS)):
        out.append({"part": "lists", "n": [3], "prefix": [first]})
    nops = len(chain_ops())
    for s in range(len(STARTS)):
        for first in range(nops):
            out.append({"part": "chain", "start": s, "first": first, "depth": depth(tier)})
    if n >= 4:
        for i in range(len(ITEMS)):
            for j in range(len(ITEMS)):
                out.append({"part": "lists", "n": [4], "prefix": [i, j]})
    from mc import harness
    return harness.with_hash_seeds(out, tier, lambda sh: sh["part"] == "lists" and sh["n"] == [0, 1, 2])


def run_shard(shard, rec):
    sink = io.StringIO()
    with contextlib.redirect_stdout(sink):
        if shard["part"] == "lists":
            run_lists(shard, rec)
        else:
            run_chains(shard, rec)
    if sink.getvalue():
        rec.count("stdout_chars_during_exploration", len(sink.getvalue()))


def run_lists(shard, rec):
    outcomes = set()
    prefix = [ITEMS[i] for i in shard["prefix"]]
    count = 0
    for n in shard["n"]:
        keyed = e1_ops_keyed(n)
        for rest in itertools.product(ITEMS, repeat=n - len(prefix)):
            items = prefix + list(rest)
            pre_key = None
            for op, okey in keyed:
                d = build(items)
                if pre_key is None:
                    pre_key = state_key(list(d))
                step(d, op, rec, pre_key=pre_key, okey=okey, outcomes=outcomes)
            count += 1
            if count % 50 == 1:
                rec.sample({"items": items, "ops": [keyed[0][0], keyed[-1][0]]})


def run_chains(shard, rec):
    ops = chain_ops()
    start = STARTS[shard["start"]]
    outcomes = set()
    seen = set()
    frontier = []
    hist = [ops[shard["first"]]]
    hist0 = ops[shard["first"]]
    key = run_case({"items": start, "chain": hist, "check_from": 0}, rec, outcomes=outcomes)
    key0_ok = key is not None
    if key is not None:
        seen.add(key)
        frontier.append(hist)
    rec.sample({"items": start, "chain": hist})
    for level in range(2, shard["depth"] + 1):
        nxt = []
        for hist in frontier:
            for op in ops:
                chain = hist + [op]
                key = run_case({"items": start, "chain": chain, "check_from": len(hist)}, rec, outcomes=outcomes)
                if key is None:
                    continue
                if key in seen:
                    rec.count("chain_states_merged")
                    continue
                seen.add(key)
                nxt.append(chain)
        frontier = nxt
    rec.count("chain_frontier_final", len(frontier))
    # X -> Y -> X: the first operation once more after every second operation (whatever a call remembers about its
    # receiver or hands on to its result must not survive the operation in between); merged states included, since
    # what is remembered is not part of the visible state
    for op in (ops if key0_ok else []):
        run_case({"items": start, "chain": [hist0, op, hist0], "check_from": 1}, rec, outcomes=outcomes)
    # the start list with a history (see run_case): every operation once, and every pair ending in unique / sort / filter
    for via in ("grouped", "aggregated", "filtered", "deepcopied"):
        run_case({"items": start, "chain": [hist0], "check_from": 0, "start_via": via}, rec, outcomes=outcomes)
        for op in ops:
            if op["op"] in ("unique", "sort", "filter", "select", "head"):
                run_case({"items": start, "chain": [hist0, op], "check_from": 0, "start_via": via}, rec, outcomes=outcomes)


def classify(v):
    """Narrow classes for the boundary arguments of insert and tail; everything else is unclassified."""
    try:
        case = v["case"]
        op = (case.get("ops") or case.get("chain"))[-1]
        n = len(case["items"]) if "ops" in case else None
        if v["op"] == "tail" and v["clause"] == "items":
            return "n=0" if op.get("n") == 0 else None
        if v["op"] == "insert" and v["clause"] == "items" and n is not None:
            i = op["index"]
            if not isinstance(i, int):
                return None
            if n == 0:
                return "empty-list"
            if i < 0:
                return "negative-index"
            if i == n:
                return "index-eq-len"
            if i > n:
                return "index-gt-len"
    except Exception:
        return None
    return None
