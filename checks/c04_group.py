# -*- coding: utf-8 -*-
"""
C04 - grouping partitions the rows; one summary row per distinct key.

E1: one group column: all columns of length 0..N over the kind's alphabet; two
group columns over {NA,lo,hi}^2 of two kinds (all value sequences, hence all
row orders). Driver: group_by(...).aggregate(count, order-sensitive digest
lambda, nrow lambda, every shorthand helper paired with the equivalent
lambda), count(*cols), split(*cols), grouped modify. Oracle: dict-of-lists
grouping of row ids on normalised keys.
"""

import itertools
import numpy as np

import dataiter as di
from mc import values as V

ID = "C04"
TITLE = "Grouping partitions the rows; one summary row per distinct key"
RULE = ("cases = (frame, group columns, grouped operation) enumerated exhaustively; distinct = digest of (columns, group columns, operation); "
        "non-trivial = >= 2 rows and the group key holds a duplicate or a missing value")
ASSUMPTIONS = [
    "values outside the alphabets and frames longer than the row bound are not explored",
    "aggregate is run with dataiter.USE_NUMBA = False (C08 covers the accelerated implementation)",
    "for a zero-row frame split() may return [] or one empty index set",
    "which representative of equal keys (e.g. -0.0 / 0.0) is shown in the group column is not pinned",
]
BOUND = {
    "quick": "long periodic frames of 17 and 40 rows per kind; one string-key frame of 200003 rows with keys of two lengths in periods of 2 and 3 (aggregate, count); one group column: rows 0..3 (0..4 for alphabets <= 4 values) over 'quick' alphabets of f8,i8,u1,b1,str,U,D,us; two group columns: 8 kind pairs x {NA,lo,hi}^2 rows 0..3; 22 helper/lambda pairs; particular values as in C03; 32 helper/lambda pairs incl. large-offset and infinite float payloads; aggregate on a frame grouped and aggregated before an element-wise edit; array forms and provenances of the one-key frames",
    "thorough": "long periodic frames of 17, 40, 130, 300 rows; one group column: rows 0..4 (0..5) over 'thorough' alphabets; two group columns: 12 kind pairs rows 0..4; plus the additions listed for the quick tier",
}
TIME_CAP = {"quick": 300, "thorough": 3000}

KINDS = ["f8", "i8", "u1", "b1", "str", "U", "D", "us", "ns", "td"]
PAIRS_Q = [("f8", "str"), ("str", "D"), ("D", "f8"), ("i8", "U"), ("b1", "us"), ("f8", "f8"), ("str", "str"), ("us", "b1")]
PAIRS_T = PAIRS_Q + [("U", "str"), ("us", "i8"), ("D", "D"), ("u1", "f8")]
BASE = 1009  # digest base > max rows + 1 (Python ints: no overflow)

HELPERS = [
    ("all", {}, "b"), ("any", {}, "b"), ("count", {}, "x"), ("count", {"drop_na": True}, "x"), ("count_unique", {}, "x"),
    ("first", {}, "x"), ("last", {}, "x"), ("nth", {"index": 1}, "x"), ("min", {}, "x"), ("max", {}, "x"), ("mode", {}, "x"),
    ("mean", {}, "x"), ("median", {}, "x"), ("quantile", {"q": 0.25}, "x"), ("std", {}, "x"), ("std", {"ddof": 1}, "x"),
    ("var", {}, "x"), ("sum", {}, "x"), ("first", {}, "s"), ("max", {}, "s"), ("mode", {}, "s"), ("count_unique", {"drop_na": True}, "s"),
    # an integer column holding values that float64 cannot represent: summaries of it are those integers, exactly
    ("min", {}, "g"), ("max", {}, "g"), ("first", {}, "g"), ("nth", {"index": -1}, "g"), ("mode", {}, "g"),
    # a float column of large values that lie close together (a variance computed as mean(x*x) - mean(x)**2 cancels
    # there), and one holding infinities next to a missing value
    ("var", {}, "t"), ("std", {}, "t"), ("mean", {}, "t"), ("sum", {}, "t"), ("var", {"ddof": 1}, "t"),
    ("sum", {}, "hh"), ("mean", {}, "hh"), ("max", {}, "hh"), ("min", {}, "hh"), ("sum", {"drop_na": False}, "hh"),
]


def shards(tier):
    out = []
    big = tier != "quick"
    for kind in KINDS:
        alpha = V.alphabet(kind, tier)
        n = (4 if big else 3) + (1 if len(alpha) <= 4 else 0)
        if len(alpha) ** n > 1500:
            for first in range(len(alpha)):
                out.append({"part": "one", "kind": kind, "tier": tier, "n": n, "first": first})
            out.append({"part": "one", "kind": kind, "tier": tier, "n": n - 1, "first": None})
        else:
            out.append({"part": "one", "kind": kind, "tier": tier, "n": n, "first": None})
    # particular values: text that looks like a missing marker or differs in blanks only, dates outside the nanosecond
    # range, the ends of the int64 range
    out.append({"part": "one", "kind": "str", "tier": tier, "n": 3, "first": None, "alpha": [None, "nan", "None", "NA", " a", "a ", "a"]})
    out.append({"part": "one", "kind": "D", "tier": tier, "n": 3, "first": None, "alpha": [None, "0001-01-01", "9999-12-31", "1677-09-21", "2262-04-12"]})
    out.append({"part": "one", "kind": "i8", "tier": tier, "n": 3, "first": None, "alpha": [0, -9223372036854775808, 9223372036854775807, -1]})
    # object keys of mixed type that are equal in Python: 1 == 1.0 == True is ONE group
    out.append({"part": "one", "kind": "obj", "tier": tier, "n": 3, "first": None, "alpha": [None, 1, 1.0, True, 2]})
    for kind in KINDS:
        for length in ([17, 40, 1025] if not big else [17, 40, 130, 300, 1025, 65537]):
            out.append({"part": "long", "kind": kind, "length": length, "period": (3 if not big else 4) if length < 1000 else 2})
    # one very long string-key frame (a width or a type measured on a SAMPLE of a big column is wrong for the rows not
    # sampled; seeded C04-r12-1 samples above 200 000 rows): keys of different lengths alternating, and in blocks of three
    out.append({"part": "long", "kind": "str", "length": 200003, "period": 3, "alpha": ["ab", "abc"], "ops": ["aggregate-core", "count"]})
    for k1, k2 in (PAIRS_T if big else PAIRS_Q):
        n = 4 if big else 3
        for first in range(len(V.alphabet(k1, "key"))):
            out.append({"part": "two", "kinds": [k1, k2], "n": n, "first": first})
        out.append({"part": "two", "kinds": [k1, k2], "n": n - 1, "first": None})
    from mc import harness
    return harness.with_array_forms(out, tier, lambda sh: sh["part"] == "one" and sh.get("first") is None)


def payload_cols(n):
    xa = [None, "1.0", "2.0", "-1.5", "1.0"]
    sa = [None, "a", "b", "a", V.LONG_A]
    return [["id", "i8", list(range(n))],
            ["x", "f8", [xa[i % 5] for i in range(n)]],
            ["s", "str", [sa[(i + 1) % 5] for i in range(n)]],
            ["b", "b1", [i % 3 != 1 for i in range(n)]],
            ["g", "i8", [9007199254740993 + 2 * ((i * 3) % 5) for i in range(n)]],
            ["_u", "i8", [7 * i + 1 for i in range(n)]],   # a column whose name starts with an underscore
            ["t", "f8", [["1700000000.25", "1700000001.5", "1700000003.0", "1700000000.5", "1700000007.75"][i % 5] for i in range(n)]],
            ["hh", "f8", [[None, "inf", "1.0", "-inf", "inf"][(i * 2) % 5] for i in range(n)]]]


def group_rows(keycells, n):
    """Reference partition: list of (key tuple, [ids]) in key order (missing last), by == with missing == missing."""
    groups = []
    for i in range(n):
        key = tuple(c[i] for c in keycells)
        for g in groups:
            if all(V.key_eq(a, b) for a, b in zip(g[0], key)):
                g[1].append(i)
                break
        else:
            groups.append((key, [i]))

    def okey(key):
        return tuple((v is None, V.value_order_key(v) if v is not None else 0) for v in key)
    groups.sort(key=lambda g: okey(g[0]))
    return groups


PRIME = (1 << 61) - 1


def digest_of(ids):
    """Order-sensitive rolling digest of a list of row ids (fits an int64 column)."""
    h = 0
    for i in ids:
        h = (h * BASE + i + 1) % PRIME
    return h


def shrink_ids(ids):
    return ids if len(ids) <= 12 else f"{ids[:6]}...{ids[-3:]} ({len(ids)} rows)"


def digest_fn(d):
    return digest_of(int(i) for i in d.id)


def helper_pair(h, kw, col):
    f = getattr(di, h)
    k = dict(kw)
    if h == "nth":
        idx = k.pop("index")
        return f(col, idx, **k), (lambda d, f=f, idx=idx, k=k: f(d[col], idx, **k))
    if h == "quantile":
        q = k.pop("q")
        return f(col, q, **k), (lambda d, f=f, q=q, k=k: f(d[col], q, **k))
    return f(col, **k), (lambda d, f=f, k=k: f(d[col], **k))


def miss(v):
    if v is None:
        return True
    if isinstance(v, float) and v != v:
        return True
    return v == "" if isinstance(v, str) else False


def same_summary(a, b):
    if miss(a) or miss(b):
        return miss(a) and miss(b)
    if isinstance(a, int) and isinstance(b, int) and not isinstance(a, bool) and not isinstance(b, bool):
        return a == b
    if (isinstance(a, int) or isinstance(b, int)) and max(abs(a), abs(b)) >= 2 ** 53 and not (isinstance(a, bool) or isinstance(b, bool)):
        return False   # one side went through float64: an integer of this size does not survive that
    return V.same_value(a, b, tol=True)


def check_case(case, rec):
    cols, by = case["cols"], case["by"]
    names = [c[0] for c in cols]
    n = len(cols[0][2])
    d = V.frame(cols)
    before = V.frame_key(d)
    rec.state(before)
    cells = {nm: V.cells(d[nm]) for nm in names}
    groups = group_rows([cells[k] for k in by], n)
    keyt = [tuple(cells[k][i] for k in by) for i in range(n)]
    nontrivial = n >= 2 and (len(groups) < n or any(None in t for t in keyt))
    old = di.USE_NUMBA
    di.USE_NUMBA = False
    try:
        for op in case["ops"]:
            rec.case((before, tuple(by), op), nontrivial)
            rec.trans()
            one = {"cols": cols, "by": by, "ops": [op]}
            opname = "aggregate-helper" if op.startswith("helper:") else op
            d._group_colnames = ()
            try:
                msg = run_op(d, op, by, n, groups, cells, rec)
            except Exception as e:
                rec.violation(opname, "raised", one, f"{type(e).__name__}: {e}")
                continue
            finally:
                d._group_colnames = ()
            if msg:
                rec.violation(opname, "relation", one, msg)
    finally:
        di.USE_NUMBA = old
    if V.frame_key(d) != before:
        rec.violation("group", "receiver-changed", {"cols": cols, "by": by, "ops": case["ops"]}, "frame changed by grouped operations")
    rec.sample({"cols": cols, "by": by, "ops": case["ops"][:2]})
    # second phase: the same frame object with a key cell edited in place must be grouped as it is now
    k0 = by[0]
    if case.get("poke") and n >= 2 and not V.same_value(cells[k0][0], cells[k0][n - 1]):
        old = di.USE_NUMBA
        di.USE_NUMBA = False
        try:
            d.group_by(*by).aggregate(n=di.count(), m=di.max("id"))   # grouped and aggregated BEFORE the edit; the mark stays
        except Exception:
            pass
        finally:
            di.USE_NUMBA = old
        col = d[k0]
        col[0] = col[n - 1]
        cells2 = dict(cells)
        cells2[k0] = [cells[k0][n - 1]] + list(cells[k0][1:])
        groups2 = group_rows([cells2[k] for k in by], n)
        two_phase = {"cols": cols, "by": by, "ops": case["ops"], "poke": True}
        old = di.USE_NUMBA
        di.USE_NUMBA = False
        try:
            for op in ("aggregate-still-grouped", "aggregate-core", "count"):
                rec.case((before, tuple(by), op, "poked"), nontrivial)
                rec.trans()
                if op != "aggregate-still-grouped":
                    d._group_colnames = ()
                try:
                    msg = run_op(d, op, by, n, groups2, cells2, rec)
                except Exception as e:
                    rec.violation(op, "after-in-place-edit:raised", two_phase, f"{type(e).__name__}: {e}")
                    continue
                finally:
                    d._group_colnames = ()
                if msg:
                    rec.violation(op, "after-in-place-edit:relation", two_phase, msg)
        finally:
            di.USE_NUMBA = old


def check_keys(out, by, groups):
    if out.nrow != len(groups):
        return f"{out.nrow} summary rows for {len(groups)} distinct key combinations {[g[0] for g in groups]}"
    for j, k in enumerate(by):
        got = V.cells(out[k])
        for gi, g in enumerate(groups):
            if not V.key_eq(got[gi], g[0][j]):
                return f"group column {k!r} = {got}, expected keys in order {[x[0][j] for x in groups]}"
    return None


def run_op(d, op, by, n, groups, cells, rec):
    if op in ("aggregate-core", "aggregate-still-grouped"):
        # (still-grouped: the frame was grouped - and aggregated - earlier and has been edited element-wise since;
        #  group_by is not called again, the mark is still on the object)
        out = (d if op == "aggregate-still-grouped" else d.group_by(*by)).aggregate(n=di.count(), dg=digest_fn, m=lambda x: x.nrow, u=lambda x: int(x._u[0]) - 7 * int(x.id[0]))
        rec.state(V.frame_key(out))
        if list(out.keys()) != list(by) + ["n", "dg", "m", "u"]:
            return f"columns {list(out.keys())}"
        if any(v != 1 for v in V.cells(out["u"])):
            return f"a group-wise function reading the column '_u' by attribute got {V.cells(out['u'])} (expected 1 for every group)"
        msg = check_keys(out, by, groups)
        if msg:
            return msg
        ns, dgs, ms = V.cells(out["n"]), V.cells(out["dg"]), V.cells(out["m"])
        if sum(ns) != n:
            return f"group sizes {ns} do not sum to nrow {n}"
        for gi, g in enumerate(groups):
            if ns[gi] != len(g[1]) or ms[gi] != len(g[1]):
                return f"group {g[0]}: count {ns[gi]} / nrow {ms[gi]}, expected {len(g[1])}"
            if dgs[gi] != digest_of(g[1]):
                return f"group {g[0]}: summary saw rows with digest {dgs[gi]}, expected rows {g[1]} in that order (digest {digest_of(g[1])})"
        rec.outcome(("agg", tuple(ns)))
        return None
    if op == "count":
        out = d.count(*by)
        rec.state(V.frame_key(out))
        msg = check_keys(out, by, groups)
        if msg:
            return msg
        ns = V.cells(out["n"])
        if ns != [len(g[1]) for g in groups]:
            return f"count {ns} expected {[len(g[1]) for g in groups]}"
        rec.outcome(("count", tuple(ns)))
        return None
    if op == "split":
        parts = d.split(*by)
        got = [[int(i) for i in p] for p in parts]
        want = [g[1] for g in groups]
        if n == 0 and got in ([], [[]]):
            return None
        if got != want:
            return f"split {got} expected {want}"
        rec.outcome(("split", tuple(map(tuple, got))))
        return None
    if op == "modify":
        out = d.group_by(*by).modify(m=lambda x: x.nrow, dg=digest_fn, r=lambda x: x.id - x.id.min(),
                                     h=lambda x: x.nrow / 2 if x.nrow > 1 else 0)  # float for some groups, int for others
        rec.state(V.frame_key(out))
        if out.nrow != n:
            return f"grouped modify returned {out.nrow} rows for {n}"
        for nm in cells:
            if not V.same_cells(V.cells(out[nm]), cells[nm]):
                return f"column {nm!r} changed by grouped modify"
        of = {}
        for g in groups:
            summary = (len(g[1]), digest_of(g[1]), min(g[1]))   # once per group, not once per row
            for i in g[1]:
                of[i] = (g, summary)
        ms, dgs, rs, hs = V.cells(out["m"]), V.cells(out["dg"]), V.cells(out["r"]), V.cells(out["h"])
        for i in range(n):
            g, (size, dig, lo) = of[i]
            if not V.same_value(hs[i], size / 2 if size > 1 else 0):
                return f"row {i} (group {g[0]} rows {shrink_ids(g[1])}): h={hs[i]!r}, expected {size / 2 if size > 1 else 0} (column dtype {out['h'].dtype})"
            if ms[i] != size or dgs[i] != dig or rs[i] != i - lo:
                return f"row {i} (group {g[0]} rows {shrink_ids(g[1])}): m={ms[i]} dg={dgs[i]} r={rs[i]}, expected {size}, {dig}, {i - lo}"
        rec.outcome(("modify", tuple(ms)))
        if n >= 1:
            # a group-wise result that does not fit its group (here: one element too many) must be rejected, not stored
            try:
                bad = d.group_by(*by).modify(z=lambda x: list(range(x.nrow + 1)))
            except Exception:
                pass
            else:
                return f"grouped modify stored a result of the wrong length: columns {[(k, len(v)) for k, v in bad.items()]}"
            finally:
                d._group_colnames = ()
        return None
    if op == "count-then-modify":
        # group_by marks the frame; count() and split() called on the marked frame leave the mark alone, so a
        # modify / aggregate that follows is still group-wise (same partition)
        g = d.group_by(*by)
        c = g.count(*by)
        parts = g.split(*by)
        out = g.modify(m=lambda x: x.nrow)
        agg = g.aggregate(n=di.count())
        ms = V.cells(out["m"])
        of = {}
        for gr in groups:
            for i in gr[1]:
                of[i] = len(gr[1])
        if ms != [of[i] for i in range(n)]:
            return f"after count() and split() on the grouped frame, modify is no longer group-wise: m={ms}, expected {[of[i] for i in range(n)]}"
        if V.cells(agg["n"]) != [len(gr[1]) for gr in groups] or V.cells(c["n"]) != [len(gr[1]) for gr in groups]:
            return f"after count() on the grouped frame: aggregate n={V.cells(agg['n'])}, count n={V.cells(c['n'])}, expected {[len(gr[1]) for gr in groups]}"
        # ... and aggregate / modify leave the mark alone as well: what follows them is still group-wise
        out2 = g.modify(m=lambda x: x.nrow)
        agg2 = g.aggregate(n=di.count())
        if V.cells(out2["m"]) != ms or V.cells(agg2["n"]) != [len(gr[1]) for gr in groups]:
            return (f"after aggregate() and modify() on the grouped frame, a second modify gives m={V.cells(out2['m'])} (expected {ms}) "
                    f"and a second aggregate n={V.cells(agg2['n'])} (expected {[len(gr[1]) for gr in groups]})")
        rec.outcome(("count-then-modify", tuple(ms)))
        return None
    if op == "aggregate-mutating":
        # an "arbitrary lambda" that overwrites the group it was handed: summaries listed after it are still
        # computed from the rows of the group, and the frame itself is untouched (checked by the caller)
        def mut(g):
            n = g.nrow
            g.x[:] = 0.0
            g.id[:] = -1
            g.b[:] = False
            return n
        out = d.group_by(*by).aggregate(z=mut, s=di.sum("x"), lo=di.min("id"), f=di.first("id"), a=di.any("b"), cu=di.count_unique("x"))
        rec.state(V.frame_key(out))
        msg = check_keys(out, by, groups)
        if msg:
            return msg
        zs, ss, los, fs, as_, cus = (V.cells(out[c]) for c in ("z", "s", "lo", "f", "a", "cu"))
        for gi, g in enumerate(groups):
            xs = [cells["x"][i] for i in g[1]]
            want_s = sum(v for v in xs if v is not None)
            want_cu = len({v for v in xs if v is not None}) + sum(1 for v in xs if v is None)
            cu_ok = cus[gi] == want_cu or (sum(1 for v in xs if v is None) >= 2 and cus[gi] == len({v for v in xs if v is not None}) + 1)
            if (zs[gi] != len(g[1]) or not V.same_value(ss[gi], want_s, tol=True) or los[gi] != min(g[1]) or fs[gi] != g[1][0]
                    or bool(as_[gi]) != any(cells["b"][i] for i in g[1]) or not cu_ok):
                return (f"group {g[0]} rows {g[1]}: after a summarising function that overwrites the group it was given, "
                        f"z={zs[gi]} sum(x)={ss[gi]} min(id)={los[gi]} first(id)={fs[gi]} any(b)={as_[gi]} count_unique(x)={cus[gi]}; "
                        f"expected {len(g[1])}, {want_s}, {min(g[1])}, {g[1][0]}, {any(cells['b'][i] for i in g[1])}, {want_cu}")
        rec.outcome(("mutating", tuple(zs)))
        return None
    if op == "modify-mutating":
        def mut(g):
            n = g.nrow
            g.x[:] = 0.0
            g.id[:] = -1
            return np.full(n, n)
        out = d.group_by(*by).modify(z=mut)
        rec.state(V.frame_key(out))
        if out.nrow != n:
            return f"grouped modify returned {out.nrow} rows for {n}"
        for nm in cells:
            if not V.same_cells(V.cells(out[nm]), cells[nm]):
                return f"column {nm!r} of the result changed by a group-wise function that overwrites the group it was given: {V.cells(out[nm])}"
        of = {}
        for g in groups:
            for i in g[1]:
                of[i] = len(g[1])
        zs = V.cells(out["z"])
        if zs != [of[i] for i in range(n)]:
            return f"grouped modify: z={zs}, expected group sizes {[of[i] for i in range(n)]}"
        rec.outcome(("modify-mutating", tuple(zs)))
        return None
    if op == "aggregate-reentrant":
        # the summarising function itself groups and aggregates (the group it was given, and an unrelated frame),
        # and sorts / uniques inside: per-call scratch state of the outer aggregate must survive that
        other = V.frame([["k", "str", ["a", "b", "a", None, "b"]], ["v", "i8", [1, 2, 3, 4, 5]]])

        def nested(g):
            inner = g.group_by("b").aggregate(n=di.count(), lo=di.min("id"))
            o = other.group_by("k").aggregate(n=di.count(), t=di.sum("v"))
            g.sort(id=-1).unique("b")
            return int(inner.nrow) * 1000 + int(o.n.sum()) * 100 + int(o.nrow)
        out = d.group_by(*by).aggregate(n=di.count(), r=nested, dg=digest_fn, m=di.max("id"))
        rec.state(V.frame_key(out))
        msg = check_keys(out, by, groups)
        if msg:
            return msg
        ns, rs, dgs, ms = V.cells(out["n"]), V.cells(out["r"]), V.cells(out["dg"]), V.cells(out["m"])
        for gi, g in enumerate(groups):
            want = len({cells["b"][i] for i in g[1]}) * 1000 + 5 * 100 + 3
            if ns[gi] != len(g[1]) or rs[gi] != want or dgs[gi] != digest_of(g[1]) or ms[gi] != max(g[1]):
                return (f"group {g[0]} rows {g[1]}: with a summarising function that itself groups and aggregates, n={ns[gi]} r={rs[gi]} "
                        f"dg={dgs[gi]} m={ms[gi]}, expected {len(g[1])}, {want}, {digest_of(g[1])}, {max(g[1])}")
        rec.outcome(("reentrant", tuple(rs)))
        return None
    if op.startswith("helper:"):
        j = int(op.split(":")[1])
        h, kw, col = HELPERS[j]
        short, lam = helper_pair(h, kw, col)
        out = d.group_by(*by).aggregate(a=short, b=lam)
        rec.state(V.frame_key(out))
        msg = check_keys(out, by, groups)
        if msg:
            return msg
        a, b = V.cells(out["a"]), V.cells(out["b"])
        for gi, g in enumerate(groups):
            if not same_summary(a[gi], b[gi]):
                return f"group {g[0]} rows {g[1]}: shorthand {h}({col!r}{', ' + repr(kw) if kw else ''}) = {a[gi]!r} but lambda = {b[gi]!r}"
        rec.outcome((op, tuple(map(repr, a))))
        return None
    raise ValueError(op)


def all_ops():
    return ["aggregate-core", "count", "split", "modify", "aggregate-reentrant", "aggregate-mutating", "modify-mutating", "count-then-modify"] + [f"helper:{j}" for j in range(len(HELPERS))]


def run_shard(shard, rec):
    ops = all_ops()
    if shard["part"] == "one":
        kind, tier, n = shard["kind"], shard["tier"], shard["n"]
        alpha = shard.get("alpha") or V.alphabet(kind, tier)
        if shard["first"] is None:
            it = V.seqs(alpha, 0, n)
        else:
            it = ((alpha[shard["first"]],) + rest for rest in itertools.product(alpha, repeat=n - 1))
        for toks in it:
            toks = list(toks)
            cols = [["k", kind, toks]] + payload_cols(len(toks))
            check_case({"cols": cols, "by": ["k"], "ops": ops, "poke": True}, rec)
    elif shard["part"] == "long":
        kind, length = shard["kind"], shard["length"]
        alpha = shard.get("alpha") or V.alphabet(kind, "key")
        # (long groups hold several missing payload values: shorthand and lambda must still agree, e.g. count_unique)
        core = ["aggregate-core", "count", "split", "modify", "helper:4", "helper:5", "helper:6", "helper:10", "helper:11", "helper:17", "aggregate-reentrant", "aggregate-mutating", "modify-mutating"]
        if shard.get("ops"):
            core = shard["ops"]
        for p in range(1, shard["period"] + 1):
            for pat in itertools.product(alpha, repeat=p):
                if shard.get("ops") and len(set(pat)) < 2:
                    continue
                toks = [pat[i % p] for i in range(length)]
                cols = [["k", kind, toks]] + payload_cols(length)
                check_case({"cols": cols, "by": ["k"], "ops": core}, rec)
    else:
        k1, k2 = shard["kinds"]
        a1, a2 = V.alphabet(k1, "key"), V.alphabet(k2, "key")
        n = shard["n"]
        core = ["aggregate-core", "count", "split", "modify", "helper:5", "helper:11", "aggregate-reentrant", "aggregate-mutating", "modify-mutating", "count-then-modify"]
        lens = range(0, n + 1) if shard["first"] is None else [n]
        for m in lens:
            for t1 in itertools.product(a1, repeat=m):
                if shard["first"] is not None and t1[0] != a1[shard["first"]]:
                    continue
                for t2 in itertools.product(a2, repeat=m):
                    cols = [["k1", k1, list(t1)], ["k2", k2, list(t2)]] + payload_cols(m)
                    check_case({"cols": cols, "by": ["k1", "k2"], "ops": core}, rec)
                    if m and m == n and t1[0] is None:
                        check_case({"cols": cols, "by": ["k2", "k1"], "ops": core[:4]}, rec)


def classify(v):
    return None
