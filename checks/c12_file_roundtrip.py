# -*- coding: utf-8 -*-
"""
C12 - writing a file and reading it back reproduces the data frame / list.

E1 over configurations: {DataFrame: pickle, npz, parquet, csv, json; ListOfDicts:
pickle, json, csv(text)} x path suffix {none, .gz, .bz2, .xz} x options (csv:
sep x header x encoding; json: encoding) x a frame family: every single-column
frame of 1..3 rows over the format-representable alphabet of every dtype (so
every missing-position mask, first position and all positions included), the
special strings (every separator, quote, LF, CRLF, Unicode), pairs of columns of
all dtypes, wide frames and awkward column names.

Oracle: the file is written by write_X(path, **opts) and read by read_X(path,
**opts) of the same class with the same options; the result must have the same
column names in the same order, the same values and the same missing positions
(the same dtypes as well for pickle/npz/parquet). For CSV, JSON and Pickle, whose
API documents suffix-driven compression, the first bytes of the file must be the
magic number of the suffix's format. Any exception is a violation.

What a text format can represent is stated in mc/ref/c12_file_ref.py and asserted
on the alphabets in prepare(), not guessed from behaviour.
"""

import itertools
import os
import pathlib
import shutil
import tempfile

import numpy as np

import dataiter as di
from mc import values as V
from mc.ref import c12_file_ref as R

ID = "C12"
TITLE = "Writing a file and reading it back reproduces the data frame"
RULE = ("cases = (class, format, path suffix, options, frame/list) enumerated exhaustively, one write+read each; "
        "distinct = digest of (class, format, suffix, options, canonical input); non-trivial = the input holds a "
        "missing value or a string that needs quoting/escaping or is non-ASCII, or has more than one column/key")
ASSUMPTIONS = [
    "frames have 1..3 rows and values from the C12 alphabets (module constants); longer frames and other values are not explored",
    "CSV (DataFrame): string cells are restricted to text that Arrow's CSV type inference keeps as text (rule: "
    "mc/ref/c12_file_ref.csv_text_representable - not null-, bool-, number-, date-, time-looking, no lone CR); "
    "datetimes lie in the int64-nanosecond range; object columns other than bool-with-None are excluded; Arrow's CSV "
    "reader/writer and CPython's csv/json/pickle/gzip/bz2/lzma are trusted",
    "CSV: a one-column frame holding a missing value is not representable (the row is an empty line, which CSV readers "
    "skip as a blank line; RFC 4180 does not define it) and is excluded from the CSV space",
    "CSV without a header can only represent the generated names a, b, c, ...; such frames are named so",
    "JSON frames hold bool/int/float/string (finite floats: Infinity/NaN literals are not JSON); "
    "dates are not representable in JSON (written as strings)",
    "Parquet: kinds with a Parquet logical type are enumerated (bool, int64, uint8, float64, string, date, timestamp ms/us, "
    "bool-with-None object); fixed-width <U, datetime64[s] and general object columns have no Parquet counterpart and are excluded",
    "text under latin-1 is restricted to latin-1 text; three encodings (utf-8, latin-1, utf-16), four separators",
    "ListOfDicts CSV: every item has the same keys in the same order and every value is a str without a lone CR; "
    "ListOfDicts JSON/Pickle: JSON-like values (None, bool, int, finite float, str, list, dict), ragged keys allowed",
    "only that the file starts with the suffix's magic number is demanded of 'really compressed'; the compressed payload is "
    "not inspected; that the requested text encoding is really used inside the file is not demanded (only the round trip)",
    "the process locale is UTF-8 (LC_ALL=C.UTF-8 set by run_check.py)",
]
BOUND = {
    "quick": "rows 1..3; quick alphabets (f8 4, i8 4, str 3 + 29 special strings (incl. text that looks like a missing marker, a number, a boolean, a date) in frames of <= 2 rows, D 3, us 3, ...); "
             "all column pairs of 2-row representatives; 5 formats x 4 suffixes x (csv: 4 sep x 2 header x 3 encodings; json: 3 encodings); "
             "JSON also with a string ending in U+0000 (columns of <= 2 rows); ListOfDicts lists of 1..2 items (csv 1..3) x pickle/json/csv x the same configurations",
    "thorough": "rows 1..3; thorough alphabets (f8 9, i8 6, str 5 + 46 special strings in frames of <= 3 rows, D 6, us 4/5, ...); "
                "same configurations; ListOfDicts lists of 1..3 items",
}
TIME_CAP = {"quick": 300, "thorough": 3000}

SUFFIXES = ["", ".gz", ".bz2", ".xz"]
SEPS = [",", ";", "\t", "|"]
ENCODINGS = ["utf-8", "latin-1", "utf-16"]
EXT = {"pickle": ".pkl", "npz": ".npz", "parquet": ".parquet", "csv": ".csv", "json": ".json"}
BINARY = ("pickle", "npz", "parquet")
MAGIC_FORMATS = ("csv", "json", "pickle")   # API documents "will automatically compress if path ends in .bz2|.gz|.xz"
DF_FORMATS = ["pickle", "npz", "parquet", "csv", "json"]
LOD_FORMATS = ["pickle", "json", "csv"]

LONG = "a" * 50

# ---------------------------------------------------------------------------
# alphabets. None is the missing value of the kind. "bo" = object column of bools with None
# (the documented home of a boolean column with a missing value).

ALPHA = {
    "f8": {"quick": [None, "1.5", "-0.0", "0.1"],
           "thorough": [None, "1.5", "-0.0", "0.1", "inf", "1e300", "9007199254740994.0", "0.3333333333333333", "5e-324"]},
    "i8": {"quick": [0, 1, -1, 9007199254740993],
           "thorough": [0, 1, -1, 9007199254740993, -9223372036854775808, 9223372036854775807]},
    "u1": {"quick": [0, 200], "thorough": [0, 5, 200]},
    # types the first Parquet format version had no counterpart for: unsigned 32-bit, nanosecond timestamps
    "u4": {"quick": [0, 4294967295], "thorough": [0, 7, 4294967295]},
    "ns": {"quick": [None, "2020-02-29T23:59:59.999999001"], "thorough": [None, "2020-02-29T23:59:59.999999001", "1969-12-31T23:59:59.999999999"]},
    "b1": {"quick": [False, True], "thorough": [False, True]},
    "bo": {"quick": [None, False, True], "thorough": [None, False, True]},
    "str": {"quick": [None, "a", "é"], "thorough": [None, "a", "é", "ab", "日本"]},
    "U": {"quick": [None, "a", "ab"], "thorough": [None, "a", "ab"]},
    "D": {"quick": [None, "1970-01-01", "2020-02-29"],
          "thorough": [None, "1970-01-01", "2020-02-29", "1969-12-31", "0001-01-01", "9999-12-31"]},
    "s": {"quick": [None, "2020-02-29T23:59:59"], "thorough": [None, "1970-01-01T00:00:00", "2020-02-29T23:59:59"]},
    "ms": {"quick": [None, "2020-02-29T23:59:59.999"], "thorough": [None, "1970-01-01T00:00:00", "2020-02-29T23:59:59.999"]},
    "us": {"quick": [None, "1970-01-01T00:00:00", "2020-02-29T23:59:59.999999"],
           "thorough": [None, "1970-01-01T00:00:00", "2020-02-29T23:59:59.999999", "1969-12-31T23:59:59"]},
    "obj": {"quick": [None, 1, "x", {"k": 1}], "thorough": [None, 1, "x", {"k": 1}]},
    # durations in days (timedelta64[D]); Parquet has no day-resolution duration, see the dtype clause
    "td": {"quick": [None, "3", "-2"], "thorough": [None, "3", "-2", "0"]},
    # datetimes in hours (datetime64[h]): a unit Arrow / Parquet do not have
    "h": {"quick": [None, "2020-02-29T23"], "thorough": [None, "2020-02-29T23", "1969-12-31T23"]},
}
US_BINARY_EXTRA = ["0001-01-01T00:00:00"]   # outside the ns range: binary formats only

SPECIALS = {
    "quick": ["x,y", "x;y", "x\ty", "x|y", 'q"r', "l1\nl2", "l1\r\nl2", "日本", "é", " ", LONG,
              "e\u0301", " a ", "\ufeffx", "x\u2028y", "\u00a0", "b\\s", "C:\\d\\"],
    "thorough": ["x,y", "x;y", "x\ty", "x|y", 'q"r', "l1\nl2", "l1\r\nl2", "日本", "é", " ", LONG,
                 '"', " a ", "'", "b\\s", "#c", "\U0001F600", ",", "\n",
                 "e\u0301", "\ufeffx", "x\u2028y", "\u00a0", "x\x85y", "\t", "A", "ａ"],
}
# text that looks like a missing marker / a number / a boolean / a date: kept as text by every format that can tell
# (the CSV space leaves out those that mc/ref/c12_file_ref.csv_text_representable rules out)
LOOKALIKES = {
    "quick": ["nan", "None", "NA", "null", "NaT", "true", "1", "1.5", "2020-01-01", "a ", "  "],
    "thorough": ["nan", "None", "NA", "null", "NaT", "true", "1", "1.5", "2020-01-01", "a ", "  ", "-0", "1e5", "inf", "N/A", "#N/A", "False", "0x10", "1_000"],
}

KINDS = {
    "pickle": ["f8", "i8", "u1", "b1", "bo", "str", "U", "D", "s", "ms", "us", "obj", "td", "h", "u4", "ns"],
    "npz": ["f8", "i8", "u1", "b1", "bo", "str", "U", "D", "s", "ms", "us", "obj", "td", "h", "u4", "ns"],
    "parquet": ["f8", "i8", "u1", "b1", "bo", "str", "D", "ms", "us", "td", "h", "u4", "ns"],
    "csv": ["f8", "i8", "b1", "bo", "str", "D", "us"],
    "json": ["f8", "i8", "b1", "bo", "str"],
}

# names by column position; "items" is a dict/DataFrame method name, "a b" is not an identifier
POS_NAMES = ["k", "a b", "é", "items", "c5", "c6", "c7", "c8", "c9", "c10", "c11", "c12", "c13", "c14", "c15", "c16"]
# names tried one by one on a two-column frame ("file" is the first parameter of numpy.savez)
NAME_ALPHABET = ["k", "a b", "é", "items", "count", "_x", "file", "n,m", 'q"n', "日本", "1", "true"]


def alphabet(fmt, kind, tier):
    a = list(ALPHA[kind][tier])
    if kind == "us" and fmt in BINARY and tier == "thorough":
        a = a + US_BINARY_EXTRA
    if fmt == "json" and kind == "f8":
        a = [t for t in a if t is None or R.jsonable_float(float(t))]
    return a


def np_array(kind, toks):
    if kind == "bo":
        return V.np_array("obj", toks)
    return V.np_array(kind, toks)


def build_frame(cols):
    d = di.DataFrame({name: np_array(kind, toks) for name, kind, toks in cols})
    form = os.environ.get("MC_ARRAY_FORM")
    # (provenance: the frame that is written is itself the product of rbind / slice / deepcopy - mc/values.frame_via)
    return V.frame_via(d, form) if form in V.PROVENANCE else d


# ---------------------------------------------------------------------------
# frame family

def single_columns(fmt, tier, n):
    for kind in KINDS[fmt]:
        for toks in itertools.product(alphabet(fmt, kind, tier), repeat=n):
            if kind == "bo" and None not in toks:
                continue  # an object column of plain bools is the "obj"/"b1" case
            yield [[POS_NAMES[0], kind, list(toks)]]


def special_columns(tier, n):
    if n > (2 if tier == "quick" else 3):
        return
    for s in SPECIALS[tier] + LOOKALIKES[tier]:
        for toks in itertools.product([None, "a", s], repeat=n):
            if s in toks:
                yield [[POS_NAMES[0], "str", list(toks)]]


def representatives(fmt, tier):
    """Two-row columns: per kind one with the missing value FIRST and one without any."""
    out = []
    for kind in KINDS[fmt]:
        a = alphabet(fmt, kind, tier)
        vals = [t for t in a if t is not None]
        if None in a:
            out.append((kind, [None, vals[-1]]))
        if kind != "bo":
            out.append((kind, [vals[0], vals[-1]]))
    out.append(("str", [None, 'q"r,\n;|\t']))
    return out


def pair_frames(fmt, tier):
    reps = representatives(fmt, tier)
    for (k1, t1), (k2, t2) in itertools.product(reps, repeat=2):
        yield [[POS_NAMES[0], k1, list(t1)], [POS_NAMES[1], k2, list(t2)]]


def name_frames(fmt):
    for name in NAME_ALPHABET:
        yield [[name, "f8", ["1.5", None]], ["z", "str", [None, "a"]]]
        yield [["z", "str", ["a", None]], [name, "i8", [1, 2]]]


def wide_frames(fmt, tier):
    """Three-row frames holding every kind of the format; the missing position rotates."""
    for shift in range(3):
        cols = []
        for j, kind in enumerate(KINDS[fmt]):
            a = alphabet(fmt, kind, tier)
            vals = [t for t in a if t is not None]
            toks = [vals[(i + j) % len(vals)] for i in range(3)]
            if None in a:
                toks[(shift + j) % 3] = None
            cols.append([POS_NAMES[j], kind, toks])
        yield cols
    sp = SPECIALS[tier]
    for shift in range(3):
        cols = []
        for j in range(4):
            toks = [sp[(3 * j + i) % len(sp)] for i in range(3)]
            toks[(shift + j) % 3] = None
            cols.append([POS_NAMES[j], "str", toks])
        yield cols
    # every row has a missing value in every column but one; one row entirely missing
    yield [[POS_NAMES[0], "str", [None, None, "a"]], [POS_NAMES[1], "f8", [None, "1.5", None]]]
    yield [[POS_NAMES[0], "f8", [None, None, None]], [POS_NAMES[1], "str", [None, None, None]]]


def frames(fmt, tier, n):
    yield from single_columns(fmt, tier, n)
    yield from special_columns(tier, n)
    if fmt == "json" and n <= 2:
        # a string ending in U+0000 is representable in JSON ("ab\\u0000"); NumPy's fixed-width strings drop trailing
        # NULs, so a reader that goes through them shortens the value (seeded C12-r12-1, C18-r12-1)
        for toks in itertools.product([None, "a", "ab\x00"], repeat=n):
            if "ab\x00" in toks:
                yield [[POS_NAMES[0], "str", list(toks)]]
    if n == 2:
        yield from pair_frames(fmt, tier)
        yield from name_frames(fmt)
    if n == 3:
        yield from wide_frames(fmt, tier)


def frame_texts(cols):
    for name, kind, toks in cols:
        yield name
        if kind in ("str", "U", "obj"):
            for t in toks:
                yield from R.strings_in(t)


def df_representable(fmt, opts, cols):
    """The stated representability rules (ASSUMPTIONS); never looks at behaviour."""
    if fmt in ("csv", "json"):
        enc = opts.get("encoding", "utf-8")
        if not all(R.encodable(t, enc) for t in frame_texts(cols)):
            return False
    if fmt == "csv":
        if len(cols) == 1 and any(t is None for t in cols[0][2]):
            # A row whose only field is missing is an empty line, which CSV readers (Arrow, Python's csv,
            # pandas) conventionally skip as a blank line: not representable in CSV.
            return False
        for name, kind, toks in cols:
            if kind == "str" and not all(t is None or R.csv_text_representable(t) for t in toks):
                return False
            if kind == "us" and not all(t is None or R.csv_datetime_representable(t) for t in toks):
                return False
            if "\r" in name or "\n" in name or name == "":
                return False
        if not opts.get("header", True):
            if [c[0] for c in cols] != R.GENERATED_NAMES[:len(cols)]:
                return False
    if fmt == "json":
        for name, kind, toks in cols:
            if kind == "f8" and not all(t is None or R.jsonable_float(float(t)) for t in toks):
                return False
    return True


def with_generated_names(cols):
    return [[R.GENERATED_NAMES[i], kind, toks] for i, (name, kind, toks) in enumerate(cols)]


# ---------------------------------------------------------------------------
# ListOfDicts family

LOD_A = {"quick": ["<absent>", None, 1, 1.5, True, "é", [1, {"z": None}]],
         "thorough": ["<absent>", None, 1, 1.5, True, "é", [1, {"z": None}]]}
LOD_B = ["<absent>", "x"]
LOD_JSON_SPECIAL = ['q"r', "l1\nl2", "l1\r\nl2", "日本", "b\\s", " ", "", 0, -0.0, 9007199254740993, False, {}, []]
LOD_CSV_BASE = ["", "a", "1"]
LOD_CSV_SPECIAL = {
    "quick": ["true", "NA", "é", "日本", "x,y", "x;y", "x\ty", "x|y", 'q"r', "l1\nl2", "l1\r\nl2", " ", LONG],
    "thorough": ["true", "NA", "é", "日本", "x,y", "x;y", "x\ty", "x|y", 'q"r', "l1\nl2", "l1\r\nl2", " ", LONG,
                 '"', " a ", "'", "b\\s", "#c", "\U0001F600", ",", "\n", "é"],
}


def lod_items(tier):
    out = []
    for a in LOD_A[tier]:
        for b in LOD_B:
            item = {}
            if b != "<absent>" and a == 1:
                item["b"] = b  # key order differs between items
            if a != "<absent>":
                item["a"] = a
            if b != "<absent>" and a != 1:
                item["b"] = b
            out.append(item)
    return out


def lod_lists(fmt, tier, n):
    """Lists of n items (as lists of [key, value] pair lists, so key order survives the replay file)."""
    if fmt in ("pickle", "json"):
        if n > (2 if tier == "quick" else 3):
            return
        for items in itertools.product(lod_items(tier), repeat=n):
            yield [list(map(list, it.items())) for it in items]
        if n <= 2:
            for s in LOD_JSON_SPECIAL:
                for items in itertools.product([{"a": s}, {"a": "a"}, {}], repeat=n):
                    if {"a": s} in items:
                        yield [list(map(list, it.items())) for it in items]
        return
    # csv: text values, same keys in every item
    for vals in itertools.product(LOD_CSV_BASE, repeat=n):
        yield [[["k", v]] for v in vals]
    if n <= 2:
        for vals in itertools.product(itertools.product(LOD_CSV_BASE, repeat=2), repeat=n):
            yield [[["k", v[0]], ["a b", v[1]]] for v in vals]
        for s in LOD_CSV_SPECIAL[tier]:
            for vals in itertools.product(["", "a", s], repeat=n):
                if s in vals:
                    yield [[["k", v]] for v in vals]
                    yield [[["é", "z"], ["k", v]] for v in vals]


def lod_texts(items):
    for it in items:
        for k, v in it:
            yield k
            yield from R.strings_in(v)


def lod_representable(fmt, opts, items):
    if fmt in ("csv", "json"):
        enc = opts.get("encoding", "utf-8")
        if not all(R.encodable(t, enc) for t in lod_texts(items)):
            return False
    if fmt == "csv":
        if not items:
            return False
        keys = [k for k, v in items[0]]
        for it in items:
            if [k for k, v in it] != keys:
                return False
            if not all(R.csv_pytext_representable(v) for k, v in it):
                return False
        if not all(R.csv_pytext_representable(k) and k != "" for k in keys):
            return False
        if not opts.get("header", True) and keys != R.GENERATED_NAMES[:len(keys)]:
            return False
    return True


def lod_generated_keys(items):
    return [[[R.GENERATED_NAMES[i], v] for i, (k, v) in enumerate(it)] for it in items]


# ---------------------------------------------------------------------------
# configurations and shards

def csv_options():
    for enc in ENCODINGS:
        for sep in SEPS:
            for header in (True, False):
                yield {"sep": sep, "header": header, "encoding": enc}


def shards(tier):
    out = []
    for n in (1, 2, 3):
        for suffix in SUFFIXES:
            for fmt in BINARY:
                out.append({"cls": "df", "fmt": fmt, "suffix": suffix, "n": n, "tier": tier})
            for enc in ENCODINGS:
                out.append({"cls": "df", "fmt": "json", "suffix": suffix, "n": n, "tier": tier, "encoding": enc})
                for sep in SEPS:
                    out.append({"cls": "df", "fmt": "csv", "suffix": suffix, "n": n, "tier": tier, "encoding": enc, "sep": sep})
                out.append({"cls": "lod", "fmt": "csv", "suffix": suffix, "n": n, "tier": tier, "encoding": enc})
                out.append({"cls": "lod", "fmt": "json", "suffix": suffix, "n": n, "tier": tier, "encoding": enc})
            out.append({"cls": "lod", "fmt": "pickle", "suffix": suffix, "n": n, "tier": tier})
    # the two-row frames of every format once more under a local time zone that is not UTC (dates and datetimes are naive)
    for sh in list(out):
        if sh["cls"] == "df" and sh["suffix"] == "" and sh["n"] == 2 and sh.get("encoding", "utf-8") == "utf-8" and sh.get("sep", ",") == ",":
            out.append(dict(sh, __env__={"TZ": "America/St_Johns"}))
    for sh in list(out):
        if sh["cls"] == "df" and sh["suffix"] == "" and sh["n"] in (2, 3) and sh.get("encoding", "utf-8") == "utf-8" and sh.get("sep", ",") == "," and "__env__" not in sh:
            for form in (("viarbind",) if tier == "quick" else ("viarbind", "viaslice", "viadeepcopy")):
                out.append(dict(sh, __env__={"MC_ARRAY_FORM": form}))
    # keyword arguments the JSON writers hand to json.dumps, on data that the chosen encoding can hold only with them
    out.append({"cls": "jsonkw", "tier": tier})
    # forms of the path argument (each format once per form)
    for form in ("bare", "bare-pathlib", "pathlib", "new-parent", "relative-subdir"):
        out.append({"cls": "paths", "form": form, "tier": tier})
    # size ladder: files larger than the readers' block size (Arrow reads CSV in 1 MiB blocks)
    for suffix in ("", ".gz"):
        out.append({"cls": "big", "suffix": suffix, "rows": 3000 if tier == "quick" else 30000, "tier": tier})
    out.append({"cls": "big", "suffix": "", "rows": 20000, "tier": tier})
    return out


def run_shard(shard, rec):
    if shard["cls"] == "paths":
        cols = [["k", "i8", [1, 2]], ["s", "str", ["x y", None]]]
        items = [[["a", "x"], ["b", "y z"]], [["a", "u"], ["b", "v"]]]
        for suffix in ("", ".gz"):
            for fmt, opts in (("csv", {"sep": ",", "header": True, "encoding": "utf-8"}), ("json", {"encoding": "utf-8"}), ("npz", {}), ("parquet", {}), ("pickle", {})):
                check_case({"cls": "df", "fmt": fmt, "suffix": suffix, "opts": opts, "cols": cols, "path_form": shard["form"]}, rec)
            for fmt, opts in (("csv", {"sep": ",", "header": True, "encoding": "utf-8"}), ("json", {"encoding": "utf-8"}), ("pickle", {})):
                check_case({"cls": "lod", "fmt": fmt, "suffix": suffix, "opts": opts, "items": items, "path_form": shard["form"]}, rec)
        return
    if shard["cls"] == "jsonkw":
        colsets = [[["k", "i8", [1, 2]], ["é", "str", ["日本", None]], ["s", "str", ["é", "x\U0001F600"]]],
                   [["s", "str", ["ü"]]]]
        itemsets = [[[["a", "日本"], ["é", "y z"]], [["a", "u"], ["é", None]]], [[["a", "\U0001F600"]]]]
        for suffix in ("", ".gz"):
            for enc in ("ascii", "latin-1", "utf-8", "utf-16"):
                for wk in ({"ensure_ascii": True}, {"ensure_ascii": True, "indent": None}, {"ensure_ascii": True, "indent": 4}):
                    for cols in colsets:
                        check_case({"cls": "df", "fmt": "json", "suffix": suffix, "opts": {"encoding": enc}, "write_opts": wk, "cols": cols}, rec)
                    for items in itemsets:
                        check_case({"cls": "lod", "fmt": "json", "suffix": suffix, "opts": {"encoding": enc}, "write_opts": wk, "items": items}, rec)
            for wk in ({"ensure_ascii": False}, {"indent": None}, {"indent": 0}, {"separators": [",", ":"]}):
                check_case({"cls": "df", "fmt": "json", "suffix": suffix, "opts": {"encoding": "utf-8"}, "write_opts": wk, "cols": colsets[0]}, rec)
                check_case({"cls": "lod", "fmt": "json", "suffix": suffix, "opts": {"encoding": "utf-8"}, "write_opts": wk, "items": itemsets[0]}, rec)
        return
    if shard["cls"] == "big":
        for fmt, opts in (("csv", {"sep": ",", "header": True, "encoding": "utf-8"}), ("csv", {"sep": ";", "header": False, "encoding": "utf-8"}),
                          ("parquet", {}), ("pickle", {}), ("json", {"encoding": "utf-8"})):
            big = {"rows": shard["rows"]}
            case = {"cls": "df", "fmt": fmt, "suffix": shard["suffix"], "opts": opts, "big": big}
            if fmt == "csv" and not opts["header"]:
                case["generated_names"] = True
            check_case(case, rec)
        return
    fmt, suffix, n, tier = shard["fmt"], shard["suffix"], shard["n"], shard["tier"]
    if shard["cls"] == "df":
        if fmt == "csv":
            optlist = [{"sep": shard["sep"], "header": h, "encoding": shard["encoding"]} for h in (True, False)]
        elif fmt == "json":
            optlist = [{"encoding": shard["encoding"]}]
        else:
            optlist = [{}]
        for cols in frames(fmt, tier, n):
            for opts in optlist:
                c = with_generated_names(cols) if (fmt == "csv" and not opts["header"]) else cols
                if not df_representable(fmt, opts, c):
                    # outside the property's domain ("whenever the data is representable"): not explored, not a cap
                    rec.count("not_representable_skipped")
                    continue
                check_case({"cls": "df", "fmt": fmt, "suffix": suffix, "opts": opts, "cols": c}, rec)
    else:
        if fmt == "csv":
            optlist = [{"sep": s, "header": h, "encoding": shard["encoding"]} for s in SEPS for h in (True, False)]
        elif fmt == "json":
            optlist = [{"encoding": shard["encoding"]}]
        else:
            optlist = [{}]
        for items in lod_lists(fmt, tier, n):
            for opts in optlist:
                it = lod_generated_keys(items) if (fmt == "csv" and not opts["header"]) else items
                if not lod_representable(fmt, opts, it):
                    rec.count("not_representable_skipped")
                    continue
                check_case({"cls": "lod", "fmt": fmt, "suffix": suffix, "opts": opts, "items": it}, rec)


# ---------------------------------------------------------------------------
# execution of one case

_SCRATCH = {}


def scratch_dir():
    pid = os.getpid()
    if pid not in _SCRATCH:
        base = os.environ.get("MC_SCRATCH")
        if base:
            d = os.path.join(base, f"c12-{pid}")
            os.makedirs(d, exist_ok=True)
        else:
            d = tempfile.mkdtemp(prefix="c12-")
        _SCRATCH.clear()
        _SCRATCH[pid] = d
    return _SCRATCH[pid]


def clean(d):
    for name in os.listdir(d):
        p = os.path.join(d, name)
        if os.path.isdir(p):
            shutil.rmtree(p)
        else:
            os.unlink(p)


def listing(d):
    return sorted(os.listdir(d))


def df_view(d):
    """names, and per column (dtype, cells, tokens)."""
    names = list(dict.keys(d))
    cols = {}
    for name in names:
        a = np.asarray(dict.__getitem__(d, name))
        c = V.cells(a)
        cols[name] = (a.dtype, c, tuple(V.tok(x) for x in c))
    return names, cols


def execute(case):
    """Run one write+read (in the scratch directory as working directory for the relative path forms)."""
    cwd = os.getcwd()
    try:
        return _execute(case)
    finally:
        os.chdir(cwd)


def _execute(case):
    """Returns (in_key, out_key, magic_state, [(clause, detail), ...])."""
    fmt, suffix, opts = case["fmt"], case["suffix"], dict(case["opts"])
    is_df = case["cls"] == "df"
    d = scratch_dir()
    clean(d)
    name = "t" + EXT[fmt] + suffix
    form = case.get("path_form", "abs")
    if form == "abs":
        path = os.path.join(d, name)
    elif form == "bare":            # a bare file name in the current directory
        os.chdir(d)
        path = name
    elif form == "bare-pathlib":
        os.chdir(d)
        path = pathlib.Path(name)
    elif form == "pathlib":
        path = pathlib.Path(d) / name
    elif form == "new-parent":      # parent directories that do not exist yet are created by the writers
        path = os.path.join(d, "new", "dir", name)
    elif form == "relative-subdir":
        os.chdir(d)
        path = os.path.join("sub", name)
    else:
        raise RuntimeError(f"bad path form {form!r}")
    if is_df:
        obj = build_frame(case["cols"])
        in_key = V.frame_key(obj)
        names, want = df_view(obj)
        klass = di.DataFrame
    else:
        plain = [dict((k, v) for k, v in it) for it in case["items"]]
        obj = di.ListOfDicts([dict(x) for x in plain])
        in_key = ("ListOfDicts", R.canon(plain))
        klass = di.ListOfDicts
    viol = []
    try:
        wopts = dict(opts)
        for k, v in (case.get("write_opts") or {}).items():
            wopts[k] = tuple(v) if isinstance(v, list) else v
        getattr(obj, "write_" + fmt)(path, **wopts)
    except Exception as e:
        viol.append(("write-raised", f"write_{fmt}({os.path.basename(path)!r}, **{wopts!r}) raised {type(e).__name__}: {e}"))
        return in_key, None, "none", viol
    magic_state = "n/a"
    if suffix and fmt in MAGIC_FORMATS:
        head = None
        if os.path.isfile(path):
            with open(path, "rb") as f:
                head = f.read(6)
        if R.magic_ok(suffix, head):
            magic_state = "ok"
        else:
            magic_state = "bad"
            other = [sfx for sfx in R.MAGIC if R.magic_ok(sfx, head)]
            how = f"holds {other[0]} data instead" if other else ("is missing" if head is None else "is not compressed at all")
            viol.append(("magic", f"write_{fmt}({os.path.basename(path)!r}): the file {how}: it starts with {head!r}, "
                                  f"expected {R.MAGIC[suffix]!r}; directory holds {listing(d)}"))
    try:
        out = getattr(klass, "read_" + fmt)(path, **opts)
    except Exception as e:
        viol.append(("read-raised", f"read_{fmt}({os.path.basename(path)!r}, **{opts!r}) raised {type(e).__name__}: "
                                    f"{str(e)[:300]}; directory holds {listing(d)}"))
        return in_key, None, magic_state, viol
    if not isinstance(out, klass):
        viol.append(("type", f"read_{fmt} returned {type(out).__name__}"))
        return in_key, None, magic_state, viol
    if is_df:
        out_key = V.frame_key(out)
        got_names, got = df_view(out)
        if got_names != names:
            viol.append(("names", f"column names {got_names} expected {names}"))
            return in_key, out_key, magic_state, viol
        for name in names:
            wd, wc, wt = want[name]
            gd, gc, gt = got[name]
            if len(gc) != len(wc):
                viol.append(("nrow", f"column {name!r}: {len(gc)} rows read back, {len(wc)} written; got {gc} expected {wc}"))
                break
            wm = [x is None for x in wc]
            gm = [x is None for x in gc]
            if wm != gm:
                viol.append(("missing", f"column {name!r}: missing positions {gm} expected {wm}; got {gc} expected {wc}"))
                break
            if fmt in BINARY:
                same = wt == gt
            else:
                same = all(R.same_text_value(a, b) for a, b in zip(wc, gc))
            if not same:
                viol.append(("values", f"column {name!r}: got {gc!r} expected {wc!r}"))
                break
            if fmt == "parquet" and wd.kind == "M" and gd.kind == "M" and np.datetime_data(wd)[0] in ("h", "m", "W", "M", "Y"):
                continue  # likewise for datetime units that Arrow does not have: the unit may become finer, the instants may not change
            if fmt == "parquet" and wd.kind == "m" and gd.kind == "m":
                continue  # Arrow / Parquet have no day-resolution duration type: the unit may widen, the durations (compared above) may not change
            if fmt in BINARY and gd != wd:
                viol.append(("dtype", f"column {name!r}: dtype {gd} read back, {wd} written (values {wc!r})"))
                break
    else:
        got_plain = [dict(x) for x in out]
        out_key = ("ListOfDicts", R.canon(got_plain))
        if len(got_plain) != len(plain):
            viol.append(("nrow", f"{len(got_plain)} items read back, {len(plain)} written; got {got_plain!r}"))
        elif out_key != in_key:
            bad = next(i for i in range(len(plain)) if R.canon(plain[i]) != R.canon(got_plain[i]))
            if list(plain[bad]) != list(got_plain[bad]):
                viol.append(("names", f"item {bad}: keys {list(got_plain[bad])} expected {list(plain[bad])}"))
            else:
                viol.append(("values", f"item {bad}: got {got_plain[bad]!r} expected {plain[bad]!r}"))
    return in_key, out_key, magic_state, viol


def is_nontrivial(case):
    if case["cls"] == "df":
        cols = case["cols"]
        if len(cols) > 1:
            return True
        texts = [t for _, kind, toks in cols if kind in ("str", "U") for t in toks if t is not None]
        return any(t is None for _, _, toks in cols for t in toks) or any(needs_care(t) for t in texts)
    items = case["items"]
    if any(len(it) != 1 for it in items):
        return True
    return any(v is None or (isinstance(v, str) and (v == "" or needs_care(v))) or isinstance(v, (list, dict))
               for it in items for k, v in it)


def needs_care(t):
    return (not t.isascii()) or any(c in t for c in ',;\t|"\n\r\\ ') or len(t) >= 50


def check_case(case, rec):
    fmt, suffix = case["fmt"], case["suffix"]
    op = ("DataFrame." if case["cls"] == "df" else "ListOfDicts.") + fmt
    in_key, out_key, magic_state, viol = execute(case)
    cfg = (case["cls"], fmt, suffix, tuple(sorted(case["opts"].items())))
    rec.case((cfg, in_key), is_nontrivial(case))
    rec.trans()
    rec.state(in_key)
    if out_key is not None:
        rec.state(out_key)
    rec.outcome((case["cls"], fmt, magic_state, tuple(c for c, _ in viol), out_key))
    if viol:
        # a failing case is executed a second time; differing observations would be uncaptured nondeterminism
        again = execute(case)
        if [c for c, _ in again[3]] != [c for c, _ in viol] or again[1] != out_key:
            # depends on what ran before in this process (hidden state) or is nondeterministic:
            # the harness re-executes every reported violation (case, then whole shard in a fresh process) and decides
            rec.count("diverged_on_immediate_reexecution")
        for clause, detail in viol:
            rec.violation(op, clause, case, detail)
    else:
        rec.count("held")
        rec.sample(case)


# ---------------------------------------------------------------------------
# narrow classifiers (named predicates over the failing case), for known_findings.json

def big_cols(spec):
    """A frame whose CSV is larger than 1 MiB, with line breaks inside quoted values (compact case, expanded here)."""
    n = spec["rows"]
    return [["k", "i8", list(range(n))],
            ["s", "str", [f"line {i} begins\nand goes on for a while {'x' * 40} {i}" for i in range(n)]],
            ["f", "f8", [None if i % 97 == 0 else repr(i / 8) for i in range(n)]]]


class _CompactCase:
    def __init__(self, rec, case):
        self.rec, self.compact = rec, case

    def __getattr__(self, name):
        return getattr(self.rec, name)

    def violation(self, op, clause, case, detail="", cls=None):
        return self.rec.violation(op, clause, self.compact, detail, cls if cls is not None else "large-file")

    def sample(self, case, every=1):
        return self.rec.sample(self.compact)


_check_small = check_case


def check_case(case, rec):  # noqa: F811
    if "big" in case:
        cols = big_cols(case["big"])
        if case.get("generated_names"):
            cols = with_generated_names(cols)
        return _check_small(dict(case, cols=cols), _CompactCase(rec, case))
    return _check_small(case, rec)


def classify(v):
    c = v["case"]
    if "big" in c:
        return None
    op, clause = v["op"], v["clause"]
    fmt, suffix, opts = c["fmt"], c["suffix"], c["opts"]
    enc = opts.get("encoding", "utf-8")
    detail = v.get("detail", "")
    if op == "DataFrame.csv" and suffix:
        if clause == "magic" and "is not compressed at all" in detail:
            return f"csv-plain-text-under{suffix}"
        if clause == "read-raised" and suffix in (".gz", ".bz2") and enc == "utf-8" and ("compress" in detail.lower() or "inflate" in detail):
            return f"csv-plain-text-under{suffix}-unreadable"
        if clause == "write-raised" and enc != "utf-8":
            return f"csv-reencode-of-plain-text-under{suffix}"
    if op == "DataFrame.npz" and suffix and clause == "read-raised" and "FileNotFoundError" in detail:
        return "npz-suffix-appended-on-write"
    if clause == "read-raised" and enc == "utf-16" and suffix in (".bz2", ".xz") and "BOM" in detail:
        return f"utf16-bom-missing-under{suffix}"
    if c["cls"] == "df":
        cols = c["cols"]
        toks = [t for _, _, ts in cols for t in ts]
        if op == "DataFrame.csv" and clause == "nrow" and len(cols) == 1 and None in toks:
            return "csv-one-column-missing-row-dropped"
        if (op == "DataFrame.csv" and clause == "read-raised" and len(cols) == 1 and all(t is None for t in toks)
                and not opts.get("header", True) and suffix in ("", ".xz") and "Empty CSV file" in detail):
            return "csv-one-column-all-missing-no-header-empty-file"
        if op == "DataFrame.npz" and clause == "write-raised" and "file" in [cc[0] for cc in cols] and "'file'" in detail:
            return "npz-column-named-file"
        if op == "DataFrame.csv" and clause == "values" and enc != "utf-8" and any(isinstance(t, str) and "\r\n" in t for t in toks):
            return "csv-crlf-lost-in-reencode"
        if op == "DataFrame.parquet" and clause == "dtype":
            for name, kind, ts in cols:
                if f"column {name!r}" not in detail:
                    continue
                if all(t is None for t in ts):
                    return f"parquet-all-missing-{kind}-to-object"
                if kind == "str" and ts[0] is None:
                    return "parquet-string-first-missing-to-object"
                if kind in ("u1", "ms"):
                    return f"parquet-{kind}-widened"
    else:
        texts = [x for it in c["items"] for k, val in it for x in R.strings_in(val)]
        if op == "ListOfDicts.csv" and clause == "values" and any("\r\n" in t for t in texts):
            return "lod-csv-crlf-universal-newlines"
    return None


# ---------------------------------------------------------------------------

def prepare(tier):
    """Infrastructure self-checks: the alphabets obey the stated representability rules."""
    R.self_test()
    for t in ("quick", "thorough"):
        for s in SPECIALS[t] + [x for x in ALPHA["str"][t] if x is not None] + ['q"r,\n;|\t']:
            assert R.csv_text_representable(s), s
        for s in LOD_CSV_BASE + LOD_CSV_SPECIAL[t]:
            assert R.csv_pytext_representable(s), s
        for iso in ALPHA["us"][t]:
            assert iso is None or R.csv_datetime_representable(iso), iso
    for bad in ["", "NA", "1", "true", "1.5", "-1e5", "inf", "2020-01-01", "12:00:00", "\r", " 1 ", "0x10", "0X1F"]:
        assert not R.csv_text_representable(bad), bad
    assert not R.csv_datetime_representable(US_BINARY_EXTRA[0])
    from dataiter import util
    assert util.generate_colnames(5) == R.GENERATED_NAMES[:5]
