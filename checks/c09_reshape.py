# -*- coding: utf-8 -*-
"""
C09 - combining and reshaping columns preserves every untouched value.

E1: rbind over all pairs (and reduced triples) of a frame family with
overlapping/disjoint column sets, 0..2 rows and promotable dtypes; select x
every ordered selection; unselect x every subset; rename x every injective
map (swaps, cycles, fresh names); colnames= x every permutation / fresh /
shorter list; cbind/update x every partner; modify x {scalar, length-1,
vector, callable} for new and existing names. E2: chains of these operations
are explored by the C01 breadth-first search, whose lock-step reference model
applies the same rules (see checks/c01_rectangular.py, part "reshape").
Oracle: list-of-columns model on plain Python values.
"""

import datetime
import itertools
import numpy as np

import dataiter as di
from mc import values as V
from mc import dfbfs

ID = "C09"
TITLE = "Combining and reshaping columns preserves every untouched value"
RULE = ("cases = (operand frames, operation, argument) enumerated exhaustively; distinct = digest of (operands, op, args); "
        "non-trivial = the operation changes the column set/order/names or stacks >= 2 non-empty frames")
ASSUMPTIONS = [
    "dtype mixes that NumPy cannot promote are excluded; cell values outside the family are not explored",
    "column position after update and after a colnames assignment is not pinned (name->values maps are compared); select, rename and cbind order is",
    "rename onto an existing name that is not itself renamed away is unspecified and excluded",
    "rbind of bool with int/float columns compares values by == (True == 1)",
]
BOUND = {
    "quick": "width ladder: frames of 33 and 130 columns (thorough: 600) through select/unselect/rename/colnames/cbind/update/modify/rbind; E2: BFS depth 3 over the reshaping sub-alphabet from 7 initial frames; rbind: all ordered pairs of the 106-frame family (columns subset of {a,b,c} x 0..2 rows x dtypes a:int/float/bool b:str/<U c:date/datetime) + triples over a 16-frame sub-family; select/unselect/rename/colnames/cbind/update/modify: every argument on 4-column frames of 0,1,3 rows",
    "thorough": "E2: BFS depth 4; rbind: all ordered pairs + triples over a 36-frame sub-family; other operations as quick plus 2-row frames and two more dtype layouts",
}
TIME_CAP = {"quick": 300, "thorough": 3000}

ADT = ["i8", "f8", "b1"]
BDT = ["str", "U"]
CDT = ["D", "us", "td"]


def fam_frame(f, subset, rows, dts):
    """Column specs of family member; values encode (frame index f, row)."""
    cols = []
    for name in subset:
        kind = dts[name]
        toks = []
        for r in range(rows):
            if name == "a":
                if kind == "b1":
                    toks.append((f + r) % 2 == 0)
                elif kind == "i8":
                    toks.append(10 * f + r)
                else:
                    toks.append(None if r == 1 else repr(10.0 * f + r + 0.5))
            elif name == "b":
                toks.append(None if (r == 1 and kind == "str") else f"f{f}r{r}")
            elif kind == "td":
                toks.append(None if r == 1 else str(1 + 3 * f + r))
            else:
                day = 1 + 3 * f + r
                base = f"2000-01-{day:02d}"
                toks.append(None if r == 1 else (base if kind == "D" else base + "T12:00:00"))
        cols.append([name, kind, toks])
    return cols


def family():
    fam = []
    for k in range(0, 4):
        for subset in itertools.combinations("abc", k):
            for rows in ((0,) if not subset else (0, 1, 2)):
                choices = [ADT if n == "a" else BDT if n == "b" else CDT for n in subset]
                for dt in itertools.product(*choices):
                    fam.append((list(subset), rows, dict(zip(subset, dt))))
    return fam


def small_family(tier):
    fam = []
    subsets = [["a"], ["b", "a"], ["c"], ["a", "b", "c"], []] if tier == "quick" else [["a"], ["b"], ["c"], ["b", "a"], ["a", "c"], ["c", "b", "a"], []]
    for subset in subsets:
        for rows in ((0,) if not subset else (0, 2) if tier == "quick" else (0, 1, 2)):
            for dt in ([("i8", "str", "D"), ("f8", "str", "us")] if tier == "quick" else [("i8", "str", "D"), ("f8", "U", "us"), ("b1", "str", "D")]):
                dts = dict(zip("abc", dt))
                fam.append((subset, rows, {n: dts[n] for n in subset}))
    # dedupe
    seen, out = set(), []
    for m in fam:
        key = repr(m)
        if key not in seen:
            seen.add(key)
            out.append(m)
    return out


def shards(tier):
    out = []
    fam = family()
    for i in range(0, len(fam), 4):
        out.append({"part": "rbind2", "lo": i, "hi": min(i + 4, len(fam))})
    sf = small_family(tier)
    for i in range(len(sf)):
        out.append({"part": "rbind3", "first": i, "tier": tier})
    depth = 3 if tier == "quick" else 4
    for init in range(len(dfbfs.INITS)):
        out.append({"part": "bfs", "init": init, "prefix": [], "depth": 1})
        d, M, seen = dfbfs.build_init(init)
        for op in dfbfs.menu(M, seen):
            if reshape_op(0, op):
                out.append({"part": "bfs", "init": init, "prefix": [op], "depth": depth - 1})
    # width ladder: frames with many columns
    for ncol in ([33, 130] if tier == "quick" else [33, 130, 600]):
        out.append({"part": "wide", "ncol": ncol})
    # the same frames under other string-hash seeds (fresh interpreters): the order of a set of names must not matter
    for seed in (["1", "2"] if tier == "quick" else ["1", "2", "3", "4"]):
        out.append({"part": "wide", "ncol": 33, "__env__": {"PYTHONHASHSEED": seed}})
        for i in range(len(sf)):
            out.append({"part": "rbind3", "first": i, "tier": tier, "__env__": {"PYTHONHASHSEED": seed}})
    layouts = [0, 1, 4] if tier == "quick" else [0, 1, 2, 3, 4]
    rows = [0, 1, 3] if tier == "quick" else [0, 1, 2, 3]
    for lay in layouts:
        for r in rows:
            for part in ("select", "unselect", "rename", "colnames", "cbind", "update", "modify"):
                out.append({"part": part, "layout": lay, "rows": r})
    return out


# ---------------------------------------------------------------------------
# rbind

def build(specs):
    return [di.DataFrame() if not cols else V.frame(cols) for cols in specs]


def promotable(specs):
    """The statement covers 'any dtypes that NumPy can promote': durations and dates under one name are not."""
    kinds = {}
    for s in specs:
        for name, kind, _ in s:
            kinds.setdefault(name, set()).add("td" if kind == "td" else "other")
    return all(len(v) == 1 for v in kinds.values())


def check_rbind(case, rec):
    specs = case["frames"]
    if not promotable(specs):
        return
    frames = build(specs)
    if case.get("grouped"):
        # frames on which group_by was called earlier are frames too (the mark stays on the object)
        for f, s in zip(frames, specs):
            if s:
                f.group_by(s[0][0])
    befores = [V.frame_key(f) for f in frames]
    for b in befores:
        rec.state(b)
    nonempty = sum(1 for s in specs if s and len(s[0][2]) > 0)
    rec.case(("rbind", tuple(befores)), nonempty >= 2)
    rec.trans()
    try:
        out = frames[0].rbind(*frames[1:])
    except Exception as e:
        rec.violation("rbind", "raised", case, f"{type(e).__name__}: {e}")
        return
    rec.state(V.frame_key(out))
    names = []
    for s in specs:
        for c in s:
            if c[0] not in names:
                names.append(c[0])
    total = sum(len(s[0][2]) if s else 0 for s in specs)
    if list(out.keys()) != names:
        rec.violation("rbind", "columns", case, f"columns {list(out.keys())} expected first-seen order {names}")
        return
    if out.nrow != total and names:
        rec.violation("rbind", "nrow", case, f"{out.nrow} rows expected {total}")
        return
    offset = 0
    for f, s in zip(frames, specs):
        m = len(s[0][2]) if s else 0
        have = {c[0] for c in s}
        for name in names:
            col = out[name]
            if len(col) != total:
                rec.violation("rbind", "nrow", case, f"column {name!r} has {len(col)} rows expected {total}")
                return
            part = np.asarray(col)[offset:offset + m]
            if name in have:
                if not V.same_cells(V.cells(part), V.cells(f[name])):
                    rec.violation("rbind", "values", case, f"column {name!r} rows {offset}..{offset + m}: {V.cells(part)} expected {V.cells(f[name])}")
                    return
            elif not all(V.na_mask(part)):
                rec.violation("rbind", "missing-fill", case, f"column {name!r} rows {offset}..{offset + m} (input lacks it): {V.cells(part)} dtype {col.dtype} not all missing")
                return
        offset += m
    rec.outcome(("rbind", tuple(names), total))
    for f, b in zip(frames, befores):
        if V.frame_key(f) != b:
            rec.violation("rbind", "operand-changed", case, "an operand changed")
            return
    rec.sample(case)


# ---------------------------------------------------------------------------
# single-frame reshaping

LAYOUTS = [
    [("a", "i8"), ("b", "str"), ("c", "f8"), ("items", "D")],
    [("a", "f8"), ("b", "U"), ("c", "b1"), ("d e", "us")],
    [("a", "b1"), ("b", "str"), ("c", "D"), ("count", "i8")],
    [("a", "obj"), ("b", "f8"), ("c", "str"), ("_x", "u1")],
    # names contained in one another, the empty name, a name that is also a method's parameter name
    [("a", "i8"), ("a b", "str"), ("", "f8"), ("rows", "D")],
]


def base_cols(layout, rows):
    cols = []
    for j, (name, kind) in enumerate(LAYOUTS[layout]):
        alpha = [t for t in V.alphabet(kind, "quick")]
        toks = [alpha[(i + j) % len(alpha)] for i in range(rows)]
        cols.append([name, kind, toks])
    return cols


def partner_specs(names, rows):
    """Partners for cbind/update: overlapping, disjoint, length-1, wrong-length, empty."""
    out = []
    lens = sorted({rows, 1, rows + 1, 0})
    for m in lens:
        for pn in ([names[0], "z"], ["z", "y"], [names[1], names[0]], ["z"]):
            cols = []
            for j, n in enumerate(pn):
                cols.append([n, "i8" if j % 2 == 0 else "str", [(100 + 10 * j + i) if j % 2 == 0 else f"P{j}{i}" for i in range(m)]])
            out.append(cols)
    out.append([])
    return out


def model_of(cols):
    d = V.frame(cols) if cols else di.DataFrame()
    return d, [(c[0], V.cells(d[c[0]])) for c in cols]


def as_map(pairs):
    return {k: v for k, v in pairs}


class Tag(str):
    """A str subclass (scalar values of such types are scalars)."""


def compare(out, expect_pairs, ordered, rec, op, case, detail=""):
    names = list(out.keys())
    enames = [k for k, _ in expect_pairs]
    if (names != enames) if ordered else (sorted(names) != sorted(enames) or len(names) != len(set(names))):
        rec.violation(op, "columns", case, f"columns {names} expected {enames}{' (any order)' if not ordered else ''} {detail}")
        return False
    em = as_map(expect_pairs)
    for n in names:
        got = V.cells(out[n])
        if not V.same_cells(got, em[n]):
            rec.violation(op, "values", case, f"column {n!r} = {got} expected {em[n]} {detail}")
            return False
    return True


def apply_and_check(op, arg, cols, rec, grouped=False):
    case = {"part": op, "cols": cols, "arg": arg}
    d, model = model_of(cols)
    if grouped and cols:
        case["grouped"] = True
        d.group_by(cols[0][0])
    names = [k for k, _ in model]
    n = len(cols[0][2]) if cols else 0
    before = V.frame_key(d)
    rec.state(before)
    rec.trans()
    inplace = op == "colnames"
    expect, ordered, reject = None, True, False
    m = as_map(model)
    try:
        if op == "select":
            expect = [(k, m[k]) for k in arg]
            call = lambda: d.select(*arg)
        elif op == "unselect":
            expect = [(k, v) for k, v in model if k not in arg]
            call = lambda: d.unselect(*arg)
        elif op == "rename":
            fm_to = {old: new for new, old in arg.items()}
            expect = [(fm_to.get(k, k), v) for k, v in model]
            call = lambda: d.rename(**arg)
        elif op == "colnames":
            new = list(arg)
            mapping = dict(zip(names, new))
            expect = [(mapping.get(k, k), v) for k, v in model]
            ordered = False

            def call():
                d.colnames = new
                return d
        elif op == "cbind" and isinstance(arg, dict):
            # several partners: the first of duplicate names wins, also among the partners
            ps = [model_of(a) for a in arg["two"]]
            p, pbefore = ps[0][0], V.frame_key(ps[0][0])
            expect = list(model)
            for _, pm_ in ps:
                expect += [(k, v) for k, v in pm_ if k not in as_map(expect)]
            call = lambda: d.cbind(*[x[0] for x in ps])
        elif op in ("cbind", "update"):
            p, pmodel = model_of(arg)
            pm = as_map(pmodel)
            pn = len(arg[0][2]) if arg else 0
            pbefore = V.frame_key(p)
            if arg and pn == 1 and n == 0:
                return  # scalar broadcast onto a zero-row frame is unspecified (DESIGN 3.5)
            if arg and pn not in (n, 1) and (op == "update" or any(k not in m for k in pm)):
                reject = True  # (cbind never looks at the length of a partner column it skips as a duplicate name)

            def bc(v):
                return v * n if (pn == 1 and n != 1 and names) else v
            if op == "cbind":
                expect = list(model) + [(k, bc(v)) for k, v in pmodel if k not in m]
                call = lambda: d.cbind(p)
            else:
                expect = [(k, v) for k, v in model if k not in pm] + [(k, bc(v)) for k, v in pmodel]
                ordered = False
                call = lambda: d.update(p)
            if not names:
                expect = [(k, v) for k, v in pmodel]
        elif op == "modify":
            target, form = arg
            newvals = [1000 + i for i in range(n)]
            if form == "scalar":
                val, ev = 7, [7] * n
            elif form == "scalar_str":
                val, ev = "ab", ["ab"] * n
            elif form == "scalar_strsub":
                val, ev = Tag("red"), ["red"] * n   # an instance of a str subclass (what enum.StrEnum members are)
            elif form == "scalar_date":
                val, ev = datetime.date(2020, 2, 29), [datetime.date(2020, 2, 29)] * n
            elif form == "len1":
                val, ev = [7], [7] * n
            elif form == "vector":
                val, ev = di.Vector(np.array(newvals, dtype="int64")), newvals
            elif form == "list":
                val, ev = list(newvals), newvals
            elif form == "callable":
                val, ev = (lambda x: x[names[0]]), m[names[0]]
            elif form == "wrong":
                val, ev, reject = list(range(n + 2)), None, True
            elif form in ("swap", "read-old"):
                val, ev = None, None
            if n == 0 and form in ("scalar", "len1", "scalar_str", "scalar_strsub", "scalar_date"):
                return  # scalar broadcast onto a zero-row frame is unspecified (DESIGN 3.5)
            if form == "swap":
                # two pairs in one call, both callables: each sees the ORIGINAL frame, so this swaps the columns
                a, b = names[0], names[-1]
                expect = [(k, (m[b] if k == a else m[a] if k == b else v)) for k, v in model]
                call = lambda: d.modify(**{a: (lambda x: x[b]), b: (lambda x: x[a])})
            elif form == "read-old":
                # a value for an existing column and, later in the same call, a callable reading that column
                a = names[0]
                expect = [(k, (newvals if k == a else v)) for k, v in model] + [("new2", m[a])]
                call = lambda: d.modify(**{a: list(newvals), "new2": (lambda x: x[a])})
            else:
                if not reject:
                    expect = [(k, (ev if k == target else v)) for k, v in model]
                    if target not in m:
                        expect.append((target, ev))
                call = lambda: d.modify(**{target: val})
        else:
            raise ValueError(op)
    except KeyError:
        raise
    nontrivial = True
    rec.case((before, op, repr(arg)), nontrivial)
    try:
        out = call()
    except Exception as e:
        if reject:
            rec.outcome((op, "rejected"))
            if V.frame_key(d) != before:
                rec.violation(op, "receiver-changed-on-reject", case, "receiver changed although the call was rejected")
            return
        rec.violation(op, "raised", case, f"{type(e).__name__}: {e}")
        return
    if reject:
        rec.violation(op, "not-rejected", case, f"a length mismatch was stored: result columns {[(k, len(v)) for k, v in out.items()]}")
        return
    rec.state(V.frame_key(out))
    if not compare(out, expect, ordered, rec, op, case):
        return
    if op == "modify" and arg[1] in ("scalar_str", "scalar_strsub", "scalar_date") and n >= 1:
        # the new column is a column like one built from a list of such values: a date column is a datetime
        # column, and a string column can hold a longer string later
        col = out[arg[0]]
        if arg[1] == "scalar_date":
            if not str(col.dtype).startswith("datetime64"):
                rec.violation(op, "scalar-column-type", case, f"a column filled with a datetime.date has dtype {col.dtype}")
                return
        else:
            col[0] = "longer than two"
            if V.cells(col)[0] != "longer than two":
                rec.violation(op, "scalar-column-type", case, f"a column filled with a string (dtype {col.dtype}) cut a longer string stored later to {V.cells(col)[0]!r}")
                return
    rec.outcome((op, tuple(out.keys())))
    if not inplace and V.frame_key(d) != before:
        rec.violation(op, "receiver-changed", case, "receiver changed")
    if op in ("cbind", "update") and V.frame_key(p) != pbefore:
        rec.violation(op, "operand-changed", case, "argument changed")
    rec.sample(case)


def args_for(op, cols):
    names = [c[0] for c in cols]
    n = len(cols[0][2])
    if op == "select":
        for k in range(0, len(names) + 1):
            for s in itertools.permutations(names, k):
                yield list(s)
    elif op == "unselect":
        for k in range(0, len(names) + 1):
            for s in itertools.combinations(names, k):
                yield list(s)
                yield list(s) + ["absent"]
    elif op == "rename":
        targets = names + ["x", "y"]
        for k in range(0, len(names) + 1):
            for olds in itertools.combinations(names, k):
                for news in itertools.permutations(targets, k):
                    final = [dict(zip(olds, news)).get(c, c) for c in names]
                    if len(set(final)) != len(final):
                        continue  # rename onto a kept existing name: unspecified
                    if any(o == nw for o, nw in zip(olds, news)):
                        continue
                    yield {nw: o for o, nw in zip(olds, news)}
    elif op == "colnames":
        pool = names + ["x", "y"]
        for k in range(0, len(names) + 1):
            for new in itertools.permutations(pool, k):
                final = list(new) + names[k:]
                if len(set(final)) != len(final):
                    continue  # would produce duplicate names: unspecified
                yield list(new)
    elif op in ("cbind", "update"):
        yield from partner_specs(names, n)
        if op == "cbind":
            yield {"two": [[["y", "i8", [500 + i for i in range(n)]], ["z", "str", [f"A{i}" for i in range(n)]]],
                           [["z", "str", [f"B{i}" for i in range(n)]], ["y", "i8", [600 + i for i in range(n)]], [names[0], "i8", [700 + i for i in range(n)]]]]}
    elif op == "modify":
        for target in [names[0], names[-1], "new"]:
            for form in ("scalar", "len1", "vector", "list", "callable", "wrong", "scalar_str", "scalar_strsub", "scalar_date"):
                yield [target, form]
        yield ["-", "swap"]
        yield ["-", "read-old"]


RESHAPE_OPS = {"select", "unselect", "rename", "cbind", "update", "modify", "rbind_self", "rbind_partner", "colnames",
               "slice_cols", "slice_off_cols", "setitem", "setattr", "delitem", "pop", "popitem", "poke", "copy",
               "grouped_modify", "cbind_self", "update_self", "update_all", "noarg"}


def reshape_op(level, op):
    return op["op"] in RESHAPE_OPS


def check_case(case, rec):
    if "history" in case:
        return dfbfs.check_history(case, rec, {"C09"})
    if case.get("part", "").startswith("rbind") or "frames" in case:
        return check_rbind(case, rec)
    return apply_and_check(case["part"], case["arg"], case["cols"], rec, grouped=bool(case.get("grouped")))


WIDE_KINDS = ["i8", "str", "f8", "D", "b1", "U", "u1", "us"]


def wide_cols(ncol, rows, tag="c", shift=0):
    cols = []
    for j in range(ncol):
        kind = WIDE_KINDS[j % len(WIDE_KINDS)]
        alpha = V.alphabet(kind, "quick")
        cols.append([f"{tag}{j:03d}", kind, [alpha[(i + j + shift) % len(alpha)] for i in range(rows)]])
    return cols


def run_wide(ncol, rec):
    cols = wide_cols(ncol, 2)
    names = [c[0] for c in cols]
    apply_and_check("select", list(reversed(names)), cols, rec)
    apply_and_check("select", names[::3], cols, rec)
    apply_and_check("unselect", names[: ncol // 2], cols, rec)
    apply_and_check("unselect", names[1::2], cols, rec)
    apply_and_check("rename", {names[(j + 1) % ncol]: names[j] for j in range(ncol)}, cols, rec)   # rotate all names
    apply_and_check("rename", {f"x{j}": names[j] for j in range(0, ncol, 2)}, cols, rec)
    apply_and_check("colnames", list(reversed(names)), cols, rec)
    apply_and_check("colnames", [f"y{j}" for j in range(ncol)], cols, rec)
    apply_and_check("cbind", wide_cols(ncol, 2, tag="p"), cols, rec)
    apply_and_check("cbind", wide_cols(ncol // 2, 2, tag="c", shift=1) + wide_cols(3, 2, tag="q"), cols, rec)
    apply_and_check("update", wide_cols(ncol // 2, 2, tag="c", shift=1) + wide_cols(3, 2, tag="q"), cols, rec)
    apply_and_check("modify", [names[-1], "vector"], cols, rec)
    apply_and_check("modify", ["-", "swap"], cols, rec)
    # rbind of wide frames whose columns come in another order, plus columns only one of them has
    other = list(reversed(wide_cols(ncol, 1, shift=2))) + wide_cols(4, 1, tag="z")
    check_rbind({"part": "rbind", "frames": [cols, other]}, rec)
    check_rbind({"part": "rbind", "frames": [other, cols, cols]}, rec)


def run_shard(shard, rec):
    part = shard["part"]
    if part == "wide":
        run_wide(shard["ncol"], rec)
        return
    if part == "bfs":
        init, prefix = shard["init"], shard["prefix"]
        if not prefix:
            dfbfs.check_history({"init": init, "history": []}, rec, {"C09"})
            dfbfs.explore(init, [], 1, rec, {"C09"}, op_filter=reshape_op)
        else:
            dfbfs.explore(init, prefix, shard["depth"], rec, {"C09"}, op_filter=reshape_op)
        rec.sample({"part": "bfs", "init": dfbfs.INITS[init], "history": prefix})
        return
    if part == "rbind2":
        fam = family()
        for i in range(shard["lo"], shard["hi"]):
            for j in range(len(fam)):
                check_rbind({"part": "rbind", "frames": [fam_frame(0, *fam[i]), fam_frame(1, *fam[j])]}, rec)
                if (i + j) % 5 == 0:
                    check_rbind({"part": "rbind", "frames": [fam_frame(0, *fam[i]), fam_frame(1, *fam[j])], "grouped": True}, rec)
        return
    if part == "rbind3":
        sf = small_family(shard["tier"])
        a = sf[shard["first"]]
        for b in sf:
            for c in sf:
                check_rbind({"part": "rbind", "frames": [fam_frame(0, *a), fam_frame(1, *b), fam_frame(2, *c)]}, rec)
        return
    cols = base_cols(shard["layout"], shard["rows"])
    for arg in args_for(part, cols):
        apply_and_check(part, arg, cols, rec)
        if cols and shard["rows"] >= 1 and part != "modify":
            # the same on a receiver on which group_by was called earlier (modify is group-wise there: C04's subject)
            apply_and_check(part, arg, cols, rec, grouped=True)


def classify(v):
    return None
