# -*- coding: utf-8 -*-
"""
C17 - ListOfDicts shared-dict discipline: isolation and obsolescence.

E2, explicit-state. A state is a FAMILY of up to K ListOfDicts grown from one
two-item root by events

    ("D", i, op, ...)   derive: non-modifying method on member i          -> new member
    ("E", i, op, ...)   edit:   in-place editing method on member i       -> new member
    ("C", i)            deepcopy of member i                              -> new root
    ("U", i, how)       use: call a method on member i, stdout captured

Breadth-first search over all event sequences to a fixed depth, on the real
objects: a state is rebuilt by replaying its event history on fresh objects
(live ListOfDicts are never copied), the reference model mc/ref/obsolete.py is
stepped in lock step, states are canonicalised (derivation forest + model and
private flags + contents of every item) and deduplicated.

Oracle on every transition, public behaviour only (captured stdout, item
contents, object identity of items): see step().
"""

import atexit
import itertools
import json
import os
import random
import sys

import dataiter as di
from mc.ref import obsolete as ref

ID = "C17"
TITLE = "ListOfDicts shared-dict discipline: isolation and obsolescence"
RULE = ("cases = (family state, event): every event sequence up to the depth bound from the two-item root, "
        "executed by replay on fresh objects; distinct = digest of (canonical state, event); canonical state = "
        "parent pointers + family + obsolete/warned flags (model and private) + items held by each member + "
        "contents of every item; non-trivial = the state holds at least one obsolete member when the event fires")
ASSUMPTIONS = [
    "a 'use' of a list is a call of one of its public methods by name (list.pluck, list.to_string, and every "
    "derive/edit/deepcopy call itself); len(), iteration and integer indexing are not counted as uses",
    "whether passing an obsolete list as a join's right-hand ARGUMENT is a use of it is left open by the "
    "statement: zero or one warning for the argument is accepted (the receiver's own warning is always demanded)",
    "only the receiver chain counts as 'lists from which it was obtained'; + and extend are not in the event set",
    "what an editing method computes is not judged here (C15/C16): after an edit the model adopts the observed "
    "contents of the items; it demands only that the right-hand list's own items and every item owned by an "
    "isolated (deep-copied) family are unchanged",
    "after an inner/left join whose right-hand list belongs to another deepcopy family the two families are no "
    "longer claimed to be isolated (the join copies values, possibly nested mutable ones, across)",
    "rename onto a key that already exists in an item is unspecified and excluded (the event is disabled there)",
    "random.sample is the only source of randomness in ListOfDicts.sample; every answer is enumerated",
    "a list warns once in its life ('once per object'): a second edit below an already warned list re-arms nothing",
]
BOUND = {
    "quick": "root of 2 items (ragged keys, one nested mutable object value); families of <= 4 lists; all event sequences "
             "to depth 4; per member 12 simple derives + map (identity / rebuilding callback), group_by, aggregate (plain / with a summary function that edits its group) and full_join - methods the statement does not name, whose relation to the receiver is observed - + sample(1|2) x every RNG answer + semi/anti join x every "
             "other member and a literal as right-hand list; 9 edits + inner/left join x the same right-hand "
             "lists; deepcopy; 8 kinds of plain use (pluck, to_string, to_json, to_data_frame, write_csv, write_json, repr, a sort by a key no item has)",
    "thorough": "same event alphabet (after histories of 4 and more events only 2 of the 8 kinds of plain use: pluck, to_string); families of <= 5 lists; all event sequences to depth 6",
}
TIME_CAP = {"quick": 300, "thorough": 4800}
EXPLANATION = ("counters: states_new = per-shard distinct states; states_with_obsolete = of those, states with "
               ">= 1 obsolete member; warnings_observed = warning lines seen on checked transitions; shape:* = one "
               "counter per distinct derivation shape (parent-pointer tuple)")

KMAX = {"quick": 4, "thorough": 5}
DEPTH = {"quick": 4, "thorough": 6}
# levels 1..L0 are explored by the 'prefix' shard; the level-L0 frontier is dealt round-robin to the chunk shards
L0 = {"quick": 2, "thorough": 3}
NCHUNKS = 64

class Box:
    """A nested MUTABLE value. attd.AttributeDict rebuilds lists, tuples, sets and dicts whenever a value is
    stored, so a nested list can never be shared between two item dicts; an arbitrary object can, and that is
    what tells a deep copy from a per-item shallow one."""

    __slots__ = ("v",)

    def __init__(self, v):
        self.v = list(v)

    def __repr__(self):
        return f"Box({self.v})"


ROOT = "[{'k': 1, 'a': 1, 'n': Box([0])}, {'k': 2, 'a': 2}]"
LIT = "[{'k': 1, 'b': 7}, {'k': 3, 'b': 8}]"


def make_root():
    """Fresh objects every time (a literal, so nothing is shared between replays)."""
    return di.ListOfDicts([{"k": 1, "a": 1, "n": Box([0])}, {"k": 2, "a": 2}])


def make_lit():
    return di.ListOfDicts([{"k": 1, "b": 7}, {"k": 3, "b": 8}])


WARNING = ref.WARNING

# ---------------------------------------------------------------------------
# the real calls

JOINS = ("semi_join", "anti_join", "inner_join", "left_join")
STATS = {}


def _stat(name, n=1):
    STATS[name] = STATS.get(name, 0) + n


def _sample(x, r, ev):
    n, answer = ev[3], list(ev[4])
    orig = random.sample

    def seam(population, k, **kwargs):
        pop = list(population)
        if k == len(answer) and len(pop) == len(x):
            _stat("sample_seam_hit")
            return list(answer)
        _stat("sample_seam_mismatch")
        return pop[:k]
    random.sample = seam
    try:
        return x.sample(n)
    finally:
        random.sample = orig


def _nested(it):
    it["n"].v.append(1)          # in-place mutation of the nested object
    return it["n"]


def _try(f):
    """A plain use whose own success is not the point here (exporting items that hold arbitrary objects may fail, sorting
    by a key that some items lack does): whatever it does, no item changes and nobody becomes obsolete."""
    try:
        f()
    except Exception:
        _stat("plain_use_raised")
    return None


def _scratch(name):
    return os.path.join(os.environ.get("MC_SCRATCH") or "/tmp", f"c17-{os.getpid()}-{name}")


CALL = {
    # non-modifying (statement: filter, sort, unique, head, tail, slicing, copy, reverse, sample, semi/anti join)
    "filter_fn": lambda x, r, ev: x.filter(lambda it: it["k"] == 1),
    "filter_kv": lambda x, r, ev: x.filter(k=2),
    "sort": lambda x, r, ev: x.sort(k=-1),
    "unique": lambda x, r, ev: x.unique("k"),
    "head": lambda x, r, ev: x.head(1),
    "head0": lambda x, r, ev: x.head(0),   # an EMPTY list obtained from x is still obtained from x
    "tail": lambda x, r, ev: x.tail(1),
    "slice": lambda x, r, ev: x[1:],
    "copy": lambda x, r, ev: x.copy(),
    "reverse": lambda x, r, ev: x.reverse(),
    "sample": _sample,
    # method chains: the intermediate list is not kept by anybody (it is freed before the chain's result is used),
    # yet the receiver stays "a list from which the result was obtained"
    "chain_filter_sort": lambda x, r, ev: x.filter(lambda it: True).sort(k=-1),
    "chain_slice_reverse": lambda x, r, ev: x[0:].reverse(),
    "semi_join": lambda x, r, ev: x.semi_join(r, "k"),
    "anti_join": lambda x, r, ev: x.anti_join(r, "k"),
    # map is not named by the statement: whether its result holds the receiver's item objects is OBSERVED (object
    # identity) - if it does, the receiver is "a list from which it was obtained through a method that hands on the
    # same item objects" and the discipline applies; if it does not, the result is an unrelated new list
    "map_identity": lambda x, r, ev: x.map(lambda it: it),
    "map_tag": lambda x, r, ev: x.map(lambda it: {**it, "t": 1}),
    # group_by is not named by the statement either; same treatment: returning the receiver itself is a plain use of
    # it, returning another list that holds the receiver's item objects makes the receiver an ancestor of that list
    "group_by": lambda x, r, ev: x.group_by("k"),
    # full_join is in neither list of the statement; same observational treatment (with a literal and an empty right list)
    # aggregate (after group_by) builds new items: nothing was edited, so nobody may start reporting itself obsolete
    "aggregate": lambda x, r, ev: x.group_by("k").aggregate(n=len),
    # ... also when a summary function edits the group it is handed (the group is its own list of its own items)
    "aggregate_editing": lambda x, r, ev: x.group_by("k").aggregate(n=lambda g: len(g.fill_missing_keys(z=0).modify(a=lambda it: 9))),
    "mul2": lambda x, r, ev: x * 2,        # every item object twice
    "rmul1": lambda x, r, ev: 1 * x,
    "add_self": lambda x, r, ev: x + x,
    "copy_std": lambda x, r, ev: __import__("copy").copy(x),            # the standard library's protocols
    "deepcopy_std": lambda x, r, ev: __import__("copy").deepcopy(x),
    "full_join_lit": lambda x, r, ev: x.full_join(make_lit(), "k"),
    "full_join_empty": lambda x, r, ev: x.full_join(di.ListOfDicts([]), "k"),
    # in-place (statement: modify, modify_if, rename, select, unselect, fill_missing_keys, inner_join, left_join)
    "modify": lambda x, r, ev: x.modify(a=lambda it: 5),
    "modify_if": lambda x, r, ev: x.modify_if(lambda it: it["k"] == 1, a=lambda it: 6),
    "modify_if_nested": lambda x, r, ev: x.modify_if(
        lambda it: isinstance(it.get("n"), Box) and len(it["n"].v) < 2, n=_nested),
    "rename": lambda x, r, ev: x.rename(c="a"),
    "select": lambda x, r, ev: x.select("k", "a"),
    "unselect": lambda x, r, ev: x.unselect("a"),
    "fill": lambda x, r, ev: x.fill_missing_keys(),
    "fill_kv": lambda x, r, ev: x.fill_missing_keys(a=0),
    "inner_join": lambda x, r, ev: x.inner_join(r, "k"),
    "left_join": lambda x, r, ev: x.left_join(r, "k"),
    # deepcopy and plain uses
    "deepcopy": lambda x, r, ev: x.deepcopy(),
    "pluck": lambda x, r, ev: x.pluck("k"),
    "to_string": lambda x, r, ev: x.to_string(),
    # further plain uses: exports, files, rendering, and a sort that cannot succeed
    "to_json": lambda x, r, ev: _try(lambda: x.to_json()),
    "to_data_frame": lambda x, r, ev: _try(lambda: x.to_data_frame()),
    "write_csv": lambda x, r, ev: _try(lambda: x.write_csv(_scratch("w.csv"))),
    "write_json": lambda x, r, ev: _try(lambda: x.write_json(_scratch("w.json"))),
    "repr": lambda x, r, ev: _try(lambda: repr(x)),
    "sort_absent_key": lambda x, r, ev: _try(lambda: x.sort(a=1, zz=-1)),
}
SIMPLE_D = ("filter_fn", "filter_kv", "sort", "unique", "head", "head0", "tail", "slice", "copy", "copy_std", "reverse",
            "chain_filter_sort", "chain_slice_reverse")
SIMPLE_E = ("modify", "modify_if", "modify_if_nested", "rename", "select", "unselect", "fill", "fill_kv")
MAPS = ("map_identity", "map_tag", "group_by", "aggregate", "aggregate_editing", "deepcopy_std", "full_join_lit", "full_join_empty", "mul2", "rmul1", "add_self")
USES = ("pluck", "to_string", "to_json", "to_data_frame", "write_csv", "write_json", "repr", "sort_absent_key")
USES_DEEP = ("pluck", "to_string")   # the kinds of use tried after histories of 4 and more events (thorough tier)
USES_ALL_BELOW = 4
# which method of the statement each op instantiates (for the reference model and reports)
METHOD = {"copy_std": "copy", "filter_fn": "filter", "filter_kv": "filter", "modify_if_nested": "modify_if",
          "chain_filter_sort": "sort", "chain_slice_reverse": "reverse", "head0": "head",
          "fill": "fill_missing_keys", "fill_kv": "fill_missing_keys"}
for _op in CALL:
    METHOD.setdefault(_op, _op)
assert all(METHOD[o] in ref.NON_MODIFYING for o in SIMPLE_D + ("sample", "semi_join", "anti_join"))
assert all(METHOD[o] in ref.IN_PLACE for o in SIMPLE_E + ("inner_join", "left_join"))


SOURCE = {
    "filter_fn": "{x}.filter(lambda it: it['k'] == 1)", "filter_kv": "{x}.filter(k=2)", "sort": "{x}.sort(k=-1)",
    "unique": "{x}.unique('k')", "head": "{x}.head(1)", "head0": "{x}.head(0)", "tail": "{x}.tail(1)", "slice": "{x}[1:]",
    "copy": "{x}.copy()", "reverse": "{x}.reverse()",
    "chain_filter_sort": "{x}.filter(lambda it: True).sort(k=-1)", "chain_slice_reverse": "{x}[0:].reverse()", "sample": "{x}.sample({n})  # random.sample answers {answer}",
    "semi_join": "{x}.semi_join({r}, 'k')", "anti_join": "{x}.anti_join({r}, 'k')",
    "map_identity": "{x}.map(lambda it: it)", "map_tag": "{x}.map(lambda it: {{**it, 't': 1}})", "group_by": "{x}.group_by('k')", "aggregate": "{x}.group_by('k').aggregate(n=len)",
    "aggregate_editing": "{x}.group_by('k').aggregate(n=lambda g: len(g.fill_missing_keys(z=0).modify(a=lambda it: 9)))",
    "copy_std": "copy.copy({x})", "deepcopy_std": "copy.deepcopy({x})", "mul2": "{x} * 2", "rmul1": "1 * {x}", "add_self": "{x} + {x}",
    "full_join_lit": "{x}.full_join(ListOfDicts(" + LIT.replace("{", "{{").replace("}", "}}") + "), 'k')", "full_join_empty": "{x}.full_join(ListOfDicts([]), 'k')",
    "modify": "{x}.modify(a=lambda it: 5)", "modify_if": "{x}.modify_if(lambda it: it['k'] == 1, a=lambda it: 6)",
    "modify_if_nested": "{x}.modify_if(lambda it: isinstance(it.get('n'), Box) and len(it['n'].v) < 2, "
                        "n=lambda it: (it['n'].v.append(1), it['n'])[1])",
    "rename": "{x}.rename(c='a')", "select": "{x}.select('k', 'a')", "unselect": "{x}.unselect('a')",
    "fill": "{x}.fill_missing_keys()", "fill_kv": "{x}.fill_missing_keys(a=0)",
    "inner_join": "{x}.inner_join({r}, 'k')", "left_join": "{x}.left_join({r}, 'k')",
    "deepcopy": "{x}.deepcopy()", "pluck": "{x}.pluck('k')", "to_string": "{x}.to_string()",
    "to_json": "{x}.to_json()  # (exceptions ignored)", "to_data_frame": "{x}.to_data_frame()  # (exceptions ignored)",
    "write_csv": "{x}.write_csv(path)  # (exceptions ignored)", "write_json": "{x}.write_json(path)  # (exceptions ignored)",
    "repr": "repr({x})", "sort_absent_key": "{x}.sort(a=1, zz=-1)  # (a key no item has: exceptions ignored)",
}


def recipe(hist, ev=None):
    """The history as printable Python (what a replay file's event list means)."""
    lines = [f"L0 = ListOfDicts({ROOT})"]
    n = 1
    for e in list(hist) + ([ev] if ev is not None else []):
        op = op_of(e)
        r = None
        if op in JOINS:
            r = f"ListOfDicts({LIT})" if e[3] == "LIT" else f"L{e[3]}"
        call = SOURCE[op].format(x=f"L{e[1]}", r=r, n=e[3] if op == "sample" else None,
                                 answer=list(e[4]) if op == "sample" else None)
        if e[0] == "U":
            lines.append(call)
        else:
            lines.append(f"L{n} = {call}")
            n += 1
    return lines


def op_of(ev):
    return "deepcopy" if ev[0] == "C" else ev[2]


def to_ev(e):
    """JSON list -> event tuple."""
    return tuple(tuple(x) if isinstance(x, list) else x for x in e)


# ---------------------------------------------------------------------------
# stdout capture (installed once around a whole shard / replay)

class _Capture:

    def __init__(self):
        self.buf = []

    def write(self, s):
        self.buf.append(s)
        return len(s)

    def flush(self):
        pass


CAP = _Capture()


class capturing:

    def __enter__(self):
        self.saved = sys.stdout
        sys.stdout = CAP

    def __exit__(self, *exc):
        sys.stdout = self.saved


# ---------------------------------------------------------------------------
# the world: real objects + model in lock step

def _cv(v):
    if isinstance(v, Box):
        return ("Box",) + tuple(v.v)
    if isinstance(v, list):
        return ("L",) + tuple(_cv(x) for x in v)
    if isinstance(v, dict):
        return ("D",) + tuple(sorted((k, _cv(x)) for k, x in v.items()))
    return v


def canon(item):
    """Contents of one item as a hashable value: the key -> value map (dict equality ignores order)."""
    return tuple(sorted([(k, v if (v is None or v.__class__ is int) else _cv(v)) for k, v in item.items()]))


class World:

    def __init__(self):
        root = make_root()
        self.lists = [root]
        self.pool = list(root)          # strong references: ids are never reused
        self.idx = {id(o): j for j, o in enumerate(self.pool)}
        self.model = ref.Model(range(len(self.pool)), [canon(o) for o in self.pool])
        self.dead = False


def impl_flags(w):
    """Private flags and back pointers: used for the state key ONLY, never by the oracle."""
    ga = object.__getattribute__
    ids = {id(x): n for n, x in enumerate(w.lists)}
    out = []
    for x in w.lists:
        try:
            p = ga(x, "_predecessor")
            out.append((-1 if p is None else ids.get(id(p), -2), bool(ga(x, "_obsolete")), bool(ga(x, "_obsolete_warned"))))
        except AttributeError:
            out.append(None)
    return tuple(out)


def state_key(w):
    return (w.model.key(), impl_flags(w))


def step(w, ev):
    """Execute one event on the real objects, judge it, advance the model.

    Returns (violations, digest, nwarn); violations is a list of (clause, detail).
    """
    if sys.stdout is not CAP:
        raise RuntimeError("stdout capture is not installed")
    model = w.model
    kind, i = ev[0], ev[1]
    op = op_of(ev)
    recv = w.lists[i]
    right, rlist, lit_before = None, None, None
    if op in JOINS:
        if ev[3] == "LIT":
            rlist = make_lit()
            lit_before = [canon(o) for o in rlist]
        else:
            right = ev[3]
            rlist = w.lists[right]
        for o in itertools.chain(recv, rlist):
            if "k" not in o:
                raise RuntimeError("harness: join key missing from an item (unspecified corner reached)")
    must, may = model.expected_warnings(i, right)
    viols = []
    del CAP.buf[:]
    try:
        out = CALL[op](recv, rlist, ev)
    except Exception as e:
        w.dead = True
        return [("raised", f"{METHOD[op]} raised {type(e).__name__}: {e}")], None, 0
    text = "".join(CAP.buf)
    nwarn = sum(1 for line in text.splitlines() if line == WARNING)
    # ---- warnings: iff the model says so, exactly once ----------------------
    me = model.members[i]
    if nwarn < must:
        viols.append(("warning-missing", f"member {i} is obsolete and has not warned yet, but its use "
                      f"({METHOD[op]}) printed {nwarn} warning(s); stdout={text!r}"))
    elif nwarn > must + may:
        if not me.obsolete:
            clause = "warned-though-not-obsolete"
        elif me.warned:
            clause = "warned-again"
        else:
            clause = "warned-more-than-once"
        viols.append((clause, f"use of member {i} ({METHOD[op]}) printed {nwarn} warning(s), model allows "
                      f"{must}..{must + may} (obsolete={me.obsolete}, already warned={me.warned})"))
    right_warned = bool(may) and nwarn > must
    # ---- register the result ----------------------------------------------
    old = len(w.pool)
    items = None
    if op in MAPS and out is recv:
        kind = "U"   # the method handed back the receiver itself: nothing new exists, the call was a use of the receiver
    if kind != "U":
        if not isinstance(out, di.ListOfDicts) or not all(isinstance(o, dict) for o in out):
            w.dead = True
            viols.append(("malformed-result", f"{METHOD[op]} returned {type(out).__name__}, not a ListOfDicts of dicts"))
            return viols, None, nwarn
        items = []
        for o in out:
            j = w.idx.get(id(o))
            if j is None:
                j = len(w.pool)
                w.pool.append(o)
                w.idx[id(o)] = j
            items.append(j)
        w.lists.append(out)
    now = [canon(o) for o in w.pool]
    before = model.contents
    changed = [j for j in range(old) if now[j] != before[j]]
    # ---- contents -----------------------------------------------------------
    if changed:
        def show(j):
            return f"item {j}: {dict(before[j])} -> {dict(now[j])}"
        if kind == "D":
            viols.append(("non-modifying-changed-item", f"{METHOD[op]} on member {i} changed " + "; ".join(map(show, changed))))
        else:
            mine = set(me.items)
            if right is not None:
                bad = [j for j in changed if j in model.members[right].items and j not in mine]
                if bad:
                    viols.append(("right-hand-changed", f"{METHOD[op]} on member {i} changed items of its right-hand "
                                  f"list (member {right}): " + "; ".join(map(show, bad))))
            foreign = set(model.foreign_items(i))
            bad = [j for j in changed if j in foreign]
            if bad:
                viols.append(("isolation-broken", f"{METHOD[op]} on member {i} (family {me.family}) changed items "
                              "owned by a deep-copied family: " + "; ".join(map(show, bad))))
    if lit_before is not None and [canon(o) for o in rlist] != lit_before:
        viols.append(("right-hand-changed", f"{METHOD[op]} changed its literal right-hand list: "
                      f"{lit_before} -> {[canon(o) for o in rlist]}"))
    if kind == "C":
        src = [before[j] for j in me.items]
        got = [now[j] for j in items]
        if src != got:
            viols.append(("deepcopy-differs", f"deepcopy of member {i}: contents {got} expected {src}"))
    # ---- advance the model ------------------------------------------------
    fresh = {j: now[j] for j in range(old, len(now))}
    if kind == "U":
        model.use(i)
    elif kind == "D":
        if op in MAPS and not (set(items) & set(me.items)):
            model.unrelated(i, items, fresh)   # own item objects: a new list that is nobody's descendant
        else:
            model.derive(i, items, fresh)
    elif kind == "E":
        model.edit(i, items, fresh, op=op, right=right)
    else:
        model.deepcopy(i, items, fresh)
    if right_warned:
        model.use(right)
    model.adopt(now)
    digest = (op, nwarn, must, may, len(changed), None if items is None else tuple(items), len(now) - old)
    return viols, digest, nwarn


def replay(hist):
    w = World()
    for ev in hist:
        step(w, ev)
        if w.dead:
            break
    return w


# ---------------------------------------------------------------------------
# enabled events

def events_for(model, kmax, level=0):
    """(enabled events, number of events disabled by the family-size cap or as unspecified)."""
    m = len(model.members)
    evs = [("U", i, how) for i in range(m) for how in (USES if level < USES_ALL_BELOW else USES_DEEP)]
    creating = []
    unspecified = 0
    for i in range(m):
        mem = model.members[i]
        n = len(mem.items)
        for op in SIMPLE_D:
            creating.append(("D", i, op))
        if n > 0:
            # methods the statement does not name: whether their result holds the receiver's item objects is observed,
            # which needs items to observe (on an empty list both answers look alike: not explored)
            for op in MAPS:
                creating.append(("D", i, op))
        for k in (1, 2):
            if k > 1 and k > n:
                continue
            for answer in itertools.permutations(range(n), min(n, k)):
                creating.append(("D", i, "sample", k, answer))
        rights = [r for r in range(m) if r != i] + ["LIT"]
        for op in ("semi_join", "anti_join"):
            for r in rights:
                creating.append(("D", i, op, r))
        for op in SIMPLE_E:
            if op == "rename":
                # rename(c="a") onto an existing key 'c' is an unspecified corner (DESIGN 3.5)
                keys = [set(k for k, _ in model.contents[j]) for j in mem.items]
                if any("a" in ks and "c" in ks for ks in keys):
                    unspecified += 1
                    continue
            creating.append(("E", i, op))
        for op in ("inner_join", "left_join"):
            for r in rights:
                creating.append(("E", i, op, r))
        creating.append(("C", i))
    if m >= kmax:
        return evs, len(creating) + unspecified
    return evs + creating, unspecified


# ---------------------------------------------------------------------------
# exploration

def case_of(hist, ev, with_recipe=False):
    case = {"history": [list(e) for e in hist], "event": list(ev)}
    if with_recipe:
        case["recipe"] = recipe(hist, ev)
    return case


def judge(hist, ev, viols, rec):
    """Re-execute a failing transition once; identical observation required before it is reported."""
    w2 = replay(hist)
    v2 = step(w2, ev)[0]
    if v2 != viols:
        # depends on what ran before in this process (hidden state) or is nondeterministic:
        # the harness re-executes every reported violation (case, then whole shard in a fresh process) and decides
        rec.count("diverged_on_immediate_reexecution")
    for clause, detail in viols:
        rec.violation(METHOD[op_of(ev)], clause, case_of(hist, ev, with_recipe=True),
                      f"{detail} || recipe: " + "; ".join(recipe(hist, ev)))


def expand(hist, kmax, rec):
    """All transitions out of the state reached by `hist`. Yields (hash, history, n_obsolete, shape) of successors."""
    w = replay(hist)
    if w.dead:
        raise RuntimeError(f"history {hist} does not replay")
    key = state_key(w)
    rec.state(key)
    hk = hash(key)
    evs, disabled = events_for(w.model, kmax, len(hist))
    rec.pruned += disabled
    nontrivial = w.model.n_obsolete() > 0
    out = []
    for n, ev in enumerate(evs):
        if n:
            w = replay(hist)
        viols, digest, nwarn = step(w, ev)
        rec.case((hk, ev), nontrivial)
        rec.trans()
        if nwarn:
            rec.count("warnings_observed", nwarn)
        if viols:
            judge(hist, ev, viols, rec)
            continue                     # a violating transition is terminal: no cascades
        k2 = state_key(w)
        rec.state(k2)
        rec.outcome(digest)
        out.append((hash(k2), hist + (ev,), w.model.n_obsolete(), w.model.shape()))
    if evs:
        rec.sample(case_of(hist, evs[-1]))
    return out


def bfs(frontier, level, depth, kmax, rec, seen):
    """Level-by-level from `frontier` (histories of length `level`) to `depth`. Returns the last frontier built."""
    while level < depth:
        nxt = []
        for hist in frontier:
            for h, hist2, nobs, shape in expand(hist, kmax, rec):
                if h in seen:
                    continue
                seen.add(h)
                rec.count("states_new")
                rec.count(f"states_new_level{level + 1}")
                if nobs:
                    rec.count("states_with_obsolete")
                rec.count("shape:" + ",".join(map(str, shape)))
                nxt.append(hist2)
        level += 1
        frontier = nxt
    return frontier


class _NullRec:
    """Recorder for the discovery pass in the parent (same code path, nothing kept)."""
    pruned = 0

    def state(self, key): pass
    def case(self, key, nontrivial=True, n=1): pass
    def trans(self, n=1): pass
    def outcome(self, key): pass
    def count(self, name, n=1): pass
    def sample(self, case, every=1): pass
    def violation(self, *a, **k): pass


_DISCOVERED = {}


def root_hash():
    with capturing():
        return hash(state_key(World()))


def discover(tier):
    """Distinct states at level L0 (as histories) and the hashes of all states of levels 0..L0."""
    if tier not in _DISCOVERED:
        seen = {root_hash()}
        with capturing():
            frontier = bfs([()], 0, min(L0[tier], DEPTH[tier]), KMAX[tier], _NullRec(), seen)
        _DISCOVERED[tier] = (frontier, seen)
    return _DISCOVERED[tier]


def shards(tier):
    frontier, _ = discover(tier)
    out = [{"tier": tier, "part": "prefix"}]
    if DEPTH[tier] > L0[tier]:
        n = max(1, min(NCHUNKS, len(frontier)))
        out += [{"tier": tier, "part": "chunk", "c": c, "n": n} for c in range(n)]
    return out


def run_shard(shard, rec):
    tier = shard["tier"]
    kmax, depth = KMAX[tier], DEPTH[tier]
    STATS.clear()
    with capturing():
        if shard["part"] == "prefix":
            seen = {root_hash()}
            rec.count("states_new")
            rec.count("states_new_level0")
            rec.count("shape:-1")
            bfs([()], 0, min(L0[tier], depth), kmax, rec, seen)
        else:
            frontier, seen0 = discover(tier)
            bfs(frontier[shard["c"]::shard["n"]], L0[tier], depth, kmax, rec, set(seen0))
    for name, n in STATS.items():
        rec.count(name, n)


def check_case(case, rec):
    """One transition: replay case['history'] on fresh objects, then judge case['event']."""
    hist = tuple(to_ev(e) for e in case["history"])
    ev = to_ev(case["event"])
    with capturing():
        w = replay(hist)
        if w.dead:
            raise RuntimeError(f"history {hist} does not replay")
        key = state_key(w)
        rec.state(key)
        viols, digest, nwarn = step(w, ev)
        rec.case((hash(key), ev), w.model.n_obsolete() > 0)
        rec.trans()
        if viols:
            judge(hist, ev, viols, rec)
            return
        rec.state(state_key(w))
        rec.outcome(digest)
    rec.sample(case)


def classify(v):
    return None


# ---------------------------------------------------------------------------
# non-vacuity summary (the harness has no end-of-run hook: printed by the parent at exit from the evidence file)

def _summary(pid):
    if os.getpid() != pid:
        return
    try:
        path = os.path.join(os.path.dirname(os.path.dirname(os.path.abspath(__file__))), "evidence", f"{ID}.json")
        with open(path) as f:
            ev = json.load(f)
        c = ev["coverage"]["counters"]
        shapes = sorted(k[6:] for k in c if k.startswith("shape:"))
        levels = {k[16:]: v for k, v in c.items() if k.startswith("states_new_level")}
        print(f"{ID} [{ev['tier']}] non-vacuity: states with >= 1 obsolete member = {c.get('states_with_obsolete', 0)} "
              f"of {c.get('states_new', 0)} (per-shard distinct; globally distinct states = {ev['coverage']['states']}); "
              f"warnings observed = {c.get('warnings_observed', 0)}; distinct derivation shapes = {len(shapes)}; "
              f"new states per level = {dict(sorted(levels.items()))}; "
              f"sample() RNG seam hit/mismatch = {c.get('sample_seam_hit', 0)}/{c.get('sample_seam_mismatch', 0)}")
    except Exception as e:  # never turn a finished run into an error
        print(f"{ID} non-vacuity summary unavailable: {e!r}")


def prepare(tier):
    if "--replay" not in sys.argv:
        atexit.register(_summary, os.getpid())
