# -*- coding: utf-8 -*-
"""
C18 - GeoJSON read/write is faithful to the feature collection.

E1 over inputs x configurations. A case is one FeatureCollection (0..3
features, heterogeneous property sets over p:int q:str r:bool f:float with
null / "" / absent, geometry null | Point | nested Polygon), the extra
top-level members, the position of "features" in the input file, the `indent`
argument of write() and the path suffix. Per case the real code is driven
through  read -> write -> (strict json parse of the written bytes) -> read
and every step is compared with the plain-Python reference in
mc/ref/c18_geojson_ref.py, which works on the case dict alone.
"""

import gzip
import itertools
import json
import os

from dataiter import GeoJSON
from mc import values as V
from mc.ref import c18_geojson_ref as R

ID = "C18"
TITLE = "GeoJSON read/write is faithful to the feature collection"
RULE = ("cases = (feature collection, extra top-level members, position of 'features', indent, path suffix) enumerated "
        "exhaustively; one case = read, write, strict parse of the written file, re-read, each compared with the reference; "
        "distinct = digest of the whole case; non-trivial = the collection has >= 2 features with different property key "
        "sets, or a null / empty-string property, or a null geometry, or an extra top-level member")
ASSUMPTIONS = [
    "property keys are p (int), q (str), r (bool), f (float), one JSON type per key; values come from a 2-value alphabet per key plus null (and \"\" for q); at most 3 features",
    "features whose `properties` member is null and a property called `geometry` are unspecified and excluded (DESIGN 3.5); "
    "so are foreign feature members such as `id` (the reader documents that it ignores them)",
    "the input file is produced by json.dumps (one spelling per value); json.load is trusted to undo it",
    "column order and metadata key order are not pinned by the statement and are not compared",
    "dtypes are not compared (an all-missing string column comes back as object); values are compared with 1 == 1.0, bool never equal to a number, '' == null == absent",
    "valid JSON is decided by json.loads with NaN/Infinity rejected (RFC 8259), after undoing gzip when the written bytes carry the gzip magic",
    "that a .gz suffix actually compresses is documented in the docstring but not part of the statement: it is counted (counter gz_plain), not demanded",
]
BOUND = {
    "quick": "72,454 cases: all collections of 0..2 features over the four keys (p,r,f: absent/null/1 value; q: absent/''/1 value) x 3 geometries (243 features, 59,293 collections); "
             "all collections of 3 features over each single key (absent/null/2 values; q: absent/null/''/2 values) x 3 geometries (8,559); "
             "13 base collections (0..3 features) x 30 member configurations (none; 5 names x 5 values; 'items'; 3 pairs) x position of 'features' {last, first} x indent {default,None,0,4} x suffix {'', .gz}; 13 base collections x 2 member configurations x 6 json.load keyword sets x 4 json.dumps keyword sets",
    "thorough": "1,394,829 cases: quick, plus all collections of 1..2 features over the four keys with the full per-key alphabets (absent/null/2 values; q also '' with a quote/backslash/non-ASCII string as second value; 960 features, 922,560 collections); "
                "all collections of 3 features over every pair of keys (absent/null/1 value, q also '') x 3 geometries (199,017); "
                "260 base collections (all 0..1-feature collections, 16 two/three-feature collections) x 40 member configurations (adds names with a newline / empty, values true, 3, '', [], {}, five members at once) "
                "x position {last, first} x indent {default,None,0,1,4} x suffix {'', .gz} (205,400)",
}
TIME_CAP = {"quick": 240, "thorough": 3000}
BOUND["quick"] += "; floats of particular value next to a missing one (-0.0, 1e300, -2**64); properties named like dict methods (values, items, keys, get); a string property ending in U+0000 (collections of <= 2 features over absent / null / 'a' / 'ab' + NUL / NUL)"
BOUND["thorough"] += "; plus the additions listed for the quick tier"

POINT = {"type": "Point", "coordinates": [24.94, 60.17]}
POLYGON = {"type": "Polygon", "coordinates": [[[0, 0], [1.5, 0], [1, 1], [0, 0]], [[0.25, 0.25], [0.5, 0.25], [0.5, 0.5], [0.25, 0.25]]],
           "bbox": [0, 0, 1.5, 1], "crs": {"note": "a \"nested\" member", "list": [None, True, {"k": "é"}]}}
GEOMS = [None, POINT, POLYGON]
ALL_GEOMS = [
    POINT, {"type": "MultiPoint", "coordinates": [[0, 0], [1, 1.5]]}, {"type": "LineString", "coordinates": [[0, 0], [1, 1]]},
    {"type": "MultiLineString", "coordinates": [[[0, 0], [1, 1]], [[2, 2], [3, 3.5]]]}, POLYGON,
    {"type": "MultiPolygon", "coordinates": [[[[0, 0], [1, 0], [1, 1], [0, 0]]]]},
    {"type": "GeometryCollection", "geometries": [POINT, {"type": "LineString", "coordinates": [[0, 0], [1, 1]]}]}, None,
]

ABSENT = "<absent>"

# per-key value alphabets: "small" = 3 states, "mid" = small with null for q too, "full" = 4 states (q: 5)
ALPHA = {
    "small": {
        "p": [ABSENT, None, 0],
        "q": [ABSENT, "", "a"],          # null for q: single-key and "full" spaces
        "r": [ABSENT, None, False],
        "f": [ABSENT, None, 1.5],
    },
    "mid": {
        "p": [ABSENT, None, 0],
        "q": [ABSENT, None, "", "a"],
        "r": [ABSENT, None, False],
        "f": [ABSENT, None, 1.5],
    },
    "full": {
        "p": [ABSENT, None, 0, 7],
        "q": [ABSENT, None, "", "a", "b\"\\é"],
        "r": [ABSENT, None, False, True],
        "f": [ABSENT, None, 1.5, -2.0, 2],    # 2: a number written without a decimal point among decimal numbers
    },
    # floats of particular value next to a missing one: a negative zero, whole numbers far beyond the int64 range
    "fx": {"f": [ABSENT, None, -0.0, 1e300, -18446744073709551616.0, 2.0]},
    # a string ending in U+0000 (valid JSON: "ab\\u0000"): NumPy's fixed-width strings drop trailing NULs (seeded C18-r12-1)
    "nul": {"q": [ABSENT, None, "a", "ab\x00", "\x00"]},
    # properties named like methods of dict (statistics / key-value exports are full of them)
    "dictnames": {"values": [ABSENT, None, 0], "items": [ABSENT, "", "a"], "keys": [ABSENT, None, False], "get": [ABSENT, None, 1.5]},
}
KEYS = ["p", "q", "r", "f"]

NAMES = ["name", "crs", "na\"me", "na\\me", "näme", "pe", ""]   # 'pe' and '' are substrings of "type"
MVALUES = ["v \"é\" \\", 1.5, None, [1, "a", None, [2.5, {"k": False}]], {"type": "name", "properties": {"na\"me": "urn:x", "n": [1, None]}}]
EXTRA_NAMES_THOROUGH = ["items", "a\nb", ""]


def features_over(keys, alpha):
    """All features over `keys` (canonical key order) x the three geometries."""
    out = []
    for combo in itertools.product(*[alpha[k] for k in keys]):
        props = {k: v for k, v in zip(keys, combo) if not (isinstance(v, str) and v == ABSENT)}
        for g in GEOMS:
            out.append({"properties": props, "geometry": g})
    return out


def member_configs(tier):
    """List of `extra` lists (each a list of [name, value])."""
    out = [[]]
    names = NAMES + ["items"]
    for name in names:
        for value in MVALUES:
            if name == "items" and value is not MVALUES[3]:
                continue
            out.append([[name, value]])
    # two members at once (order of members, an escaped name next to a plain one)
    out.append([["name", "x"], ["crs", MVALUES[4]]])
    out.append([["crs", None], ["name", 2]])
    out.append([["näme", [1]], ["na\"me", "x"]])
    if tier == "thorough":
        for name in EXTRA_NAMES_THOROUGH[1:]:
            for value in (MVALUES[0], MVALUES[4]):
                out.append([[name, value]])
        for value in (True, 3, "", [], {}):
            out.append([["name", value]])
        out.append([[n, v] for n, v in zip(NAMES, MVALUES)])
    return out


def base_collections(tier):
    F = lambda p, g: {"properties": p, "geometry": g}
    base = [
        [],
        [F({}, None)],
        [F({}, POINT)],
        [F({"p": 0}, POLYGON)],
        [F({"q": ""}, POINT)],
        [F({"p": None, "q": "a", "r": False, "f": 1.5}, None)],
        [F({"p": 7}, POINT), F({"q": "a"}, None)],
        [F({"q": None, "r": True}, POLYGON), F({"f": -2.0, "p": 0}, POINT)],
        [F({}, None), F({}, None)],
        [F({"r": None}, POINT), F({"r": None}, POLYGON)],
        [F({"p": 0, "q": "b\"\\é"}, POLYGON), F({"p": 7, "q": ""}, POLYGON)],
        [F({"f": 1.5}, POINT), F({}, None), F({"q": "a", "f": None}, POLYGON)],
        # one feature of every geometry type of RFC 7946 (the library hands geometries on unchanged, whatever their type)
        [F({"p": i}, g) for i, g in enumerate(ALL_GEOMS)],
        [F({"p": 0, "q": "a", "r": True, "f": 1.5}, POINT), F({"p": 7, "q": "a", "r": False, "f": -2.0}, POINT), F({"p": 0, "q": "a", "r": True, "f": 1.5}, None)],
    ]
    if tier == "thorough":
        small = [[]] + [[f] for f in features_over(KEYS, ALPHA["small"])]
        more = []
        one = features_over(["p", "q"], ALPHA["small"])
        for i in range(0, len(one), 3):
            more.append([one[i], one[(i * 7 + 5) % len(one)]])
        base = small + base[6:] + more[:12]
    return base


# ---------------------------------------------------------------------------
# shards

def shards(tier):
    """Size-ascending: number of features first, then alphabet size."""
    feat = lambda keys, alpha, n, j=0, of=1: {"part": "feat", "keys": keys, "alpha": alpha, "n": n, "chunk": j, "of": of, "tier": tier}
    out = [feat(KEYS, "small", 0), feat(KEYS, "small", 1)]
    if tier == "thorough":
        out.append(feat(KEYS, "full", 1))
    nmeta = 16 if tier == "quick" else 32
    out += [{"part": "meta", "chunk": j, "of": nmeta, "tier": tier} for j in range(nmeta)]
    out += [feat(KEYS, "small", 2, j, 27) for j in range(27)]
    if tier == "thorough":
        out += [feat(KEYS, "full", 2, j, 96) for j in range(96)]
    out += [feat([k], "full", 3) for k in KEYS]
    out.append(feat(["f"], "fx", 2 if tier == "quick" else 3))
    out.append(feat(["q"], "nul", 2 if tier == "quick" else 3))
    out.append(feat(["values", "items", "keys", "get"], "dictnames", 1))
    out += [feat(["values", "items", "keys", "get"], "dictnames", 2, j, 9) for j in range(9)]
    out.append({"part": "kwargs", "tier": tier})
    from mc import harness
    out = harness.with_hash_seeds(out, tier, lambda sh: sh["part"] == "kwargs" or (sh["part"] == "feat" and sh["n"] <= 1))
    # size ladder: long collections (a chunked writer / reader must not care where a chunk ends)
    out += [{"part": "long", "length": n, "tier": tier} for n in ([17, 1001] if tier == "quick" else [17, 129, 1001, 2049])]
    if tier == "thorough":
        for a, b in itertools.combinations(KEYS, 2):
            out += [feat([a, b], "mid", 3, j, 4) for j in range(4)]
    return out


def run_shard(shard, rec):
    tier = shard["tier"]
    if shard["part"] == "long":
        feats = features_over(KEYS, ALPHA["small"])
        coll = [feats[(i * 7) % len(feats)] for i in range(shard["length"])]
        for indent in ("default", 0):
            check_case({"features": coll, "extra": [], "pos": "last", "indent": indent, "suffix": ""}, rec)
        return
    if shard["part"] == "kwargs":
        # keyword arguments documented as handed to json.load / json.dumps that leave the decoded values and the
        # meaning of the written file alone: the reading and the round trip must be what they are without them
        extras = [[], [["name", "x"], ["crs", MVALUES[4]]]]
        for coll in base_collections(tier):
            for extra in extras:
                for rk in READ_KWARGS:
                    for wk in WRITE_KWARGS:
                        if rk is None and wk is None:
                            continue
                        check_case({"features": coll, "extra": extra, "pos": "last", "indent": "default", "suffix": "",
                                    "read_kwargs": rk, "write_kwargs": wk}, rec)
        return
    if shard["part"] == "meta":
        configs = []
        indents = ["default", None, 0, 4] if tier == "quick" else ["default", None, 0, 1, 4]
        for coll in base_collections(tier):
            for extra in member_configs(tier):
                for pos in ("last", "first"):
                    if pos == "first" and not extra:
                        continue
                    for indent in indents:
                        for suffix in ("", ".gz"):
                            configs.append((coll, extra, pos, indent, suffix))
        for i in range(shard["chunk"], len(configs), shard["of"]):
            coll, extra, pos, indent, suffix = configs[i]
            check_case({"features": coll, "extra": extra, "pos": pos, "indent": indent, "suffix": suffix}, rec)
        return
    feats = features_over(shard["keys"], ALPHA[shard["alpha"]])
    n = shard["n"]
    if n == 0:
        colls = [[]]
    elif n == 1:
        colls = ([f] for f in feats)
    else:
        firsts = [feats[i] for i in range(shard["chunk"], len(feats), shard["of"])]
        colls = ([f0] + list(rest) for f0 in firsts for rest in itertools.product(feats, repeat=n - 1))
    for i, coll in enumerate(colls):
        coll = list(coll)
        check_case({"features": coll, "extra": [], "pos": "last", "indent": "default", "suffix": ""}, rec)
        # every 4th collection also with the properties of its last feature listed in the reverse order
        # (the order of the members of a JSON object carries no meaning)
        if n >= 2 and i % 4 == 1 and len(coll[-1]["properties"]) >= 2:
            last = dict(coll[-1], properties=dict(reversed(list(coll[-1]["properties"].items()))))
            check_case({"features": coll[:-1] + [last], "extra": [], "pos": "last", "indent": "default", "suffix": ""}, rec)


# ---------------------------------------------------------------------------
# one execution

_DIR = None

READ_KWARGS = [None, "pairs_dict", "pairs_ordered", "hook_dict", "hook_same", "parse_plain"]
WRITE_KWARGS = [None, "ascii", "compact", "default_repr"]


def read_kwargs(name):
    import collections
    return {None: {},
            "pairs_dict": {"object_pairs_hook": dict},
            "pairs_ordered": {"object_pairs_hook": collections.OrderedDict},
            "hook_dict": {"object_hook": dict},
            "hook_same": {"object_hook": lambda x: x},
            "parse_plain": {"parse_float": float, "parse_int": int}}[name]


def write_kwargs(name):
    return {None: {}, "ascii": {"ensure_ascii": True}, "compact": {"separators": (",", ":")}, "default_repr": {"default": repr}}[name]


def scratch_dir():
    global _DIR
    pid = os.getpid()
    if _DIR is None or _DIR[0] != pid:
        root = os.environ.get("MC_SCRATCH") or os.environ.get("TMPDIR") or "/tmp"
        path = os.path.join(root, f"c18-{pid}")
        os.makedirs(path, exist_ok=True)
        _DIR = (pid, path)
    return _DIR[1]


def write_input(path, top):
    text = json.dumps(top, ensure_ascii=False)
    if os.path.exists(path):
        os.unlink(path)     # truncating an existing file costs 0.4 ms on this filesystem, a fresh one 0.02 ms
    if path.endswith(".gz"):
        with gzip.open(path, "wt", encoding="utf-8", compresslevel=1) as f:
            f.write(text)
    else:
        with open(path, "w", encoding="utf-8") as f:
            f.write(text)


def read_written(path, rec):
    with open(path, "rb") as f:
        blob = f.read()
    if blob[:2] == b"\x1f\x8b":
        blob = gzip.decompress(blob)
    elif path.endswith(".gz"):
        rec.count("gz_plain")
    return blob.decode("utf-8")


def frame_state(obs):
    """Canonical state key of a GeoJSON frame, from its observation (columns in order, dtype, cells, geometry, metadata)."""
    cols = tuple((name, obs["dtypes"][name], tuple(V.tok(x) for x in obs["cols"][name][0])) for name in obs["names"] if name != "geometry")
    return ("GeoJSON", cols, repr(obs["geometry"]), json.dumps(obs["metadata"], sort_keys=True, default=repr, ensure_ascii=False))


def observe(d):
    """What the statement talks about, read off a GeoJSON frame: name -> (cells, is_na), geometry list, metadata."""
    cols, dts = {}, {}
    names = list(dict.keys(d))
    for name in names:
        if name == "geometry":
            continue
        col = d[name]
        cols[name] = (V.cells(col), [bool(x) for x in col.is_na().tolist()])
        dts[name] = V.dtype_name(col)
    geometry = list(d["geometry"]) if "geometry" in names else None
    return {"names": names, "nrow": d.nrow, "cols": cols, "geometry": geometry, "metadata": dict(d.metadata), "dtypes": dts}


def shape_digest(obs):
    return tuple((name, obs["dtypes"][name], tuple(obs["cols"][name][1])) for name in sorted(obs["cols"]))


def check_case(case, rec):
    top = R.document(case)                     # the input file as a plain dict
    key = json.dumps(case, ensure_ascii=False)
    rec.case(key, R.nontrivial(case))
    rec.state(("input", key))
    base = os.path.join(scratch_dir(), "in.geojson" + case["suffix"])
    out = os.path.join(scratch_dir(), "out.geojson" + case["suffix"])
    write_input(base, top)
    kwargs = {} if case["indent"] == "default" else {"indent": case["indent"]}
    kwargs.update(write_kwargs(case.get("write_kwargs")))
    rkw = read_kwargs(case.get("read_kwargs"))

    # ---- read ---------------------------------------------------------
    rec.trans()
    try:
        d = GeoJSON.read(base, **rkw)
    except Exception as e:
        rec.violation("read", "raised", case, f"{type(e).__name__}: {e}")
        rec.outcome(("read-raised", type(e).__name__))
        return
    try:
        obs = observe(d)
        rec.state(frame_state(obs))
    except Exception as e:
        rec.violation("read", "malformed-result", case, f"{type(e).__name__}: {e}")
        return
    bad = R.check_read(case, obs)
    if bad:
        rec.violation("read", bad[0], case, bad[1])
        rec.outcome(("read", bad[0]))
        return

    # ---- write ---------------------------------------------------------
    rec.trans()
    if os.path.exists(out):
        os.unlink(out)
    try:
        d.write(out, **kwargs)
    except Exception as e:
        rec.violation("write", "raised", case, f"{type(e).__name__}: {e}")
        rec.outcome(("write-raised", type(e).__name__))
        return
    text = read_written(out, rec)
    try:
        written = R.strict_loads(text)
    except ValueError as e:
        rec.violation("write", "invalid-json", case, f"{e}; file starts {text[:300]!r}", cls=only_member_names_unescaped(case, text))
        rec.outcome(("write", "invalid-json"))
        return
    bad = R.check_written(case, written)
    if bad:
        rec.violation("write", bad[0], case, bad[1] + f"; file starts {text[:300]!r}")
        rec.outcome(("write", bad[0]))
        return

    # ---- re-read -------------------------------------------------------
    rec.trans()
    try:
        d2 = GeoJSON.read(out, **rkw)
    except Exception as e:
        rec.violation("reread", "raised", case, f"{type(e).__name__}: {e}")
        rec.outcome(("reread-raised", type(e).__name__))
        return
    try:
        obs2 = observe(d2)
        rec.state(frame_state(obs2))
    except Exception as e:
        rec.violation("reread", "malformed-result", case, f"{type(e).__name__}: {e}")
        return
    bad = R.check_same(obs, obs2) or R.check_read(case, obs2)
    if bad:
        rec.violation("reread", bad[0], case, bad[1])
        rec.outcome(("reread", bad[0]))
        return
    rec.outcome((shape_digest(obs), shape_digest(obs2), tuple(sorted(obs["metadata"])), len(text)))
    rec.sample(case)


def only_member_names_unescaped(case, text):
    """Narrow classifier, decided on the written text itself: the file is invalid, a top-level member
    name that needs JSON escaping occurs in it verbatim, and escaping just those names makes the file
    valid with the right features. Anything else that is wrong with the file stays unclassified."""
    fixed = text
    hit = False
    for name, _ in case["extra"]:
        good = json.dumps(name, ensure_ascii=False)
        raw = '"' + name + '"'
        if raw != good and (raw + ": ") in fixed:
            fixed = fixed.replace(raw + ": ", good + ": ", 1)
            hit = True
    if not hit:
        return None
    try:
        doc = R.strict_loads(fixed)
    except ValueError:
        return None
    if R.check_written(case, doc) is not None:
        return None
    return "top-level member name written without JSON escaping"


def classify(v):
    return None
