# -*- coding: utf-8 -*-
"""
C16 - ListOfDicts joins and aggregation follow first-match / partition rules.

E1: every pair of lists (length 0..N) whose key values range over {None, 1, 2}
(so duplicates and None keys are forced on both sides; the key is present in
every item), one- and two-key joins, same-name and (left, right) renamed keys,
right-hand payload keys that clash with a left key or not, x the five joins,
each executed on fresh copies of both lists. Oracle: nested-loop reference for
left/inner/semi/anti join (exact expected item list), a *checker* of the stated
relation for full_join, and "the right-hand items are unchanged" for all five.

aggregate: every list (length 0..M) of items over {None,1,2} x {None,'a','b'},
grouped by one or two keys, summarised with len and an ordered digest of the
group's items. Oracle: dict grouping by scanning, groups ordered by the keys
with None last.
"""

import itertools

import dataiter as di
from mc.ref import c16_lod_ref as R

ID = "C16"
TITLE = "ListOfDicts joins and aggregation follow first-match / partition rules"
RULE = ("cases = (left list, right list, key tuple, payload naming, join) and (list, group-key tuple) enumerated "
        "exhaustively; distinct = digest of (by, left items, right items, join) resp. (items, by); non-trivial = "
        "join: both lists non-empty and a key value is None or a key combination repeats within a list; "
        "aggregate: >= 2 items and a group key is None or a key combination repeats")
ASSUMPTIONS = [
    "key values are None, 1, 2 (aggregate: second key None, 'a', 'b'); lists longer than the bound are not explored",
    "every item holds every join / group key (items lacking the key are an unspecified corner, DESIGN 3.5)",
    "equal key values means Python equality of the values, so a None key matches a None key",
    "items are compared by contents and value type; the order of entries inside an item is not pinned",
    "right items carry a unique payload value each, left items a unique 'id', so 'which item' is observable",
    "full_join: under which key names a right-only item carries its key values when names differ is not stated "
    "(right names, left names or both accepted); a right payload key named like the LEFT JOIN KEY is explored for "
    "left/inner/semi/anti join only (there the statement is exact), not for full_join",
    "aggregate with zero group keys, and summary names equal to a group key, are not explored",
]
BOUND = {
    "quick": ("joins: one key - all pairs of lists of length 0..3 x 5 naming configs; two keys - all pairs of lists "
              "of length 0..3 over {None,1,2}^2 for same-name keys, left 0..3 x right 0..2 for renamed keys, 0..2 x 0..2 "
              "for the 4 other naming configs; x 5 joins. aggregate: all lists of length 0..4 over 9 items x 4 group-key tuples"),
    "thorough": ("joins: one key - all pairs of lists of length 0..5 x 5 naming configs; two keys - all pairs of "
                 "lists of length 0..3 x 6 naming configs; x 5 joins. aggregate: all lists of length 0..5 x 4 "
                 "group-key tuples"),
}
TIME_CAP = {"quick": 480, "thorough": 3000}
BOUND["quick"] += '; a key whose name contains the names of other entries; operands that are products of deepcopy / filter / map / JSON round trip / modify / a slice (lists of <= 2 items a side, aggregates of <= 3 items); aggregate, in-place move of an item, aggregate again; aggregates of <= 3 items with the key values -1 and -2 (equal hashes, unequal values)'
BOUND["thorough"] += "; plus the additions listed for the quick tier"

JOINS = ["left_join", "inner_join", "semi_join", "anti_join", "full_join"]
KEYVALS = [None, 1, 2]
K2VALS_AGG = [None, "a", "b"]

# naming configs: (number of keys, by, right key names, right payload key, include full_join)
CFG = {
    "1-same": (1, ["k"], ["k"], "p", True),
    "1-same-clash": (1, ["k"], ["k"], "id", True),
    "1-ren": (1, [["k", "rk"]], ["rk"], "p", True),
    "1-ren-clash": (1, [["k", "rk"]], ["rk"], "id", True),
    "1-ren-leftkey": (1, [["k", "rk"]], ["rk"], "k", False),
    # right items that hold nothing but the join key(s): a match that merges nothing is still a match
    "1-same-bare": (1, ["k"], ["k"], None, False),
    # the payload of every other right item is None: an entry holding None is an entry (it is merged like any other)
    "1-same-nonepayload": (1, ["k"], ["k"], "p?", True),
    # ragged right items: only the first right item has the entry 'extra' (it belongs to that item alone)
    "1-same-ragged": (1, ["k"], ["k"], "p!", True),
    # key names crossed between the two sides: the left 'k' is the right 'k2' and the other way round
    "2-crossed": (2, [["k", "k2"], ["k2", "k"]], ["k2", "k"], "p", True),
    "1-ren-bare": (1, [["k", "rk"]], ["rk"], None, False),
    "2-same": (2, ["k", "k2"], ["k", "k2"], "p", True),
    "2-same-clash": (2, ["k", "k2"], ["k", "k2"], "id", True),
    "2-ren": (2, [["k", "rk"], ["k2", "rk2"]], ["rk", "rk2"], "p", True),
    "2-ren-clash": (2, [["k", "rk"], ["k2", "rk2"]], ["rk", "rk2"], "id", True),
    "2-mixed": (2, ["k", ["k2", "rk2"]], ["k", "rk2"], "p", True),
    "2-mixed-leftkey": (2, ["k", ["k2", "rk2"]], ["k", "rk2"], "k2", False),
    # a join key whose NAME contains the names of other entries ('p' and 'id' occur inside 'pkid')
    "1-same-substr": (1, ["k"], ["k"], "p", True),
}
# configs whose items are built as above and then get their keys renamed (in the items and in `by`)
KEY_RENAME = {"1-same-substr": {"k": "pkid"}}


def renamed_keys(cfg, items, by):
    m = KEY_RENAME.get(cfg)
    if not m:
        return items, by
    return ([{m.get(k, k): v for k, v in x.items()} for x in items],
            [m.get(b, b) if isinstance(b, str) else [m.get(x, x) for x in b] for b in by])
AGG_BY = [["k"], ["k2"], ["k", "k2"], ["k2", "k"]]


# ---------------------------------------------------------------------------
# shards
# ---------------------------------------------------------------------------

def _join_shards(cfg, nk, maxl, maxr, split_over):
    """One shard per (left length, right length), split by the first left items when large."""
    nitem = len(KEYVALS) ** nk
    out = []
    for nl in range(maxl + 1):
        for nr in range(maxr + 1):
            pairs = nitem ** (nl + nr)
            plen = 0
            while pairs / (nitem ** plen) > split_over and plen < nl:
                plen += 1
            for prefix in itertools.product(range(nitem), repeat=plen):
                out.append({"part": "join", "cfg": cfg, "nl": nl, "nr": nr, "prefix": list(prefix),
                            "_size": pairs / (nitem ** plen), "_n": nl + nr})
    return out


def shards(tier):
    out = []
    if tier == "quick":
        for cfg, spec in CFG.items():
            if spec[0] == 1:
                out += _join_shards(cfg, 1, 3, 3, 3000)
            elif cfg == "2-same":
                out += _join_shards(cfg, 2, 3, 3, 8000)
            elif cfg == "2-ren":
                out += _join_shards(cfg, 2, 3, 2, 8000)
            else:
                out += _join_shards(cfg, 2, 2, 2, 8000)
        out += _agg_shards(4)
    else:
        for cfg, spec in CFG.items():
            if spec[0] == 1:
                out += _join_shards(cfg, 1, 5, 5, 8000)
            else:
                out += _join_shards(cfg, 2, 3, 3, 8000)
        out += _agg_shards(5)
    out.sort(key=lambda s: (s["_n"], s["_size"]))
    for s in out:
        del s["_size"], s["_n"]
    return out


def _agg_shards(nmax):
    out = []
    for n in range(nmax + 1):
        plen = max(0, n - 3)
        for prefix in itertools.product(range(9), repeat=plen):
            out.append({"part": "agg", "n": n, "prefix": list(prefix), "_size": 9 ** (n - plen), "_n": n})
    return out


# ---------------------------------------------------------------------------
# operand construction (all from JSON-able data)
# ---------------------------------------------------------------------------

def left_item(nk, combo, i):
    item = {"k": combo[0]}
    if nk == 2:
        item["k2"] = combo[1]
    item["id"] = f"L{i}"
    return item


def right_item(rnames, pkey, combo, j):
    item = {name: v for name, v in zip(rnames, combo)}
    if pkey is not None and pkey.endswith("!"):
        item[pkey[:-1]] = f"R{j}"
        if j == 0:
            item["extra"] = 5
    elif pkey is not None and pkey.endswith("?"):
        item[pkey[:-1]] = None if j % 2 == 0 else f"R{j}"
        item["rid"] = j
    elif pkey is not None:
        item[pkey] = f"R{j}"
    return item


def agg_item(combo, i):
    return {"k": combo[0], "k2": combo[1], "id": i}


def hashable_by(by):
    return tuple(x if isinstance(x, str) else tuple(x) for x in by)


def _repeats_or_none(items, names):
    seen = []
    for x in items:
        kv = [x[n] for n in names]
        if None in kv or kv in seen:
            return True
        seen.append(kv)
    return False


# ---------------------------------------------------------------------------
# joins
# ---------------------------------------------------------------------------

VIAS = ["deepcopy", "filter", "map", "json", "modify", "slice"]


def lod_via(items, via):
    """The list with these items, built directly - or (provenance) as the PRODUCT of another public operation that
    leaves the same items: the operations under test must not care where their operands came from. Falls back to the
    directly built list when the product does not hold the same items (that is the other operation's business)."""
    a = di.ListOfDicts([dict(x) for x in items])
    if not via:
        return a
    if via not in VIAS:
        raise ValueError(via)
    try:
        if via == "deepcopy":
            out = a.deepcopy()
        elif via == "filter":
            out = a.filter(lambda x: True)
        elif via == "map":
            out = a.map(lambda x: dict(x))
        elif via == "json":
            out = di.ListOfDicts.from_json(a.to_json())
        elif via == "modify":
            out = a.modify(id=lambda x: x["id"]) if all("id" in x for x in items) else a.deepcopy()
        else:
            out = a[:]
    except Exception:
        return a
    if not isinstance(out, di.ListOfDicts) or [repr(sorted(x.items(), key=repr)) for x in out] != [repr(sorted(dict(x).items(), key=repr)) for x in items]:
        return di.ListOfDicts([dict(x) for x in items])
    return out


def check_join(case, rec):
    left, right = case["left"], case["right"]
    alias = bool(case.get("alias_left"))
    if alias:
        left = left + left   # what the doubled list holds, as values (the real list holds every item object twice)
    by = R.norm_by(case["by"])
    by1, by2 = R.split_by(by)
    fm = R.first_matches(left, right, by1, by2)
    lk, rk = R.lkey(left), R.lkey(right)
    inkey = (hashable_by(by), lk, rk)
    rec.state(("lists", lk))
    rec.state(("lists", rk))
    nontrivial = bool(left) and bool(right) and (_repeats_or_none(left, by1) or _repeats_or_none(right, by2))
    for join in case["joins"]:
        rec.case((inkey, join), nontrivial)
        rec.trans()
        one = {"part": "join", "left": case["left"], "right": right, "by": case["by"], "joins": [join]}
        # fresh copies for every execution: left_join / inner_join edit the items in place
        a = lod_via(case["left"], case.get("via"))
        if case.get("via"):
            one["via"] = case["via"]
        if alias:
            one["alias_left"] = True
            a = a * 2   # the same item OBJECTS twice (list semantics of *)
        b = lod_via(right, case.get("via"))
        by_arg = [list(x) if (case.get("pair_form") == "list" and not isinstance(x, str)) else x for x in by]
        if case.get("pair_form"):
            one["pair_form"] = case["pair_form"]
        try:
            out = getattr(a, join)(b, *by_arg)
        except Exception as e:
            rec.violation(join, "raised", one, f"{type(e).__name__}: {e}; left={left} right={right} by={by_arg}")
            continue
        if not isinstance(out, list) or not all(isinstance(x, dict) for x in out):
            rec.violation(join, "malformed-result", one, f"result is not a list of dicts: {out!r}")
            continue
        got = R.lkey(out)
        rec.state(("lists", got))
        if len(b) != len(right) or R.lkey(b) != rk:
            rec.violation(join, "right-changed", one, f"right-hand list after the join: {[dict(x) for x in b]} was {right}")
            continue
        if join == "full_join":
            ok, clause, detail = R.check_full_join(out, left, right, by1, by2)
            if not ok:
                rec.violation(join, clause, one, f"{detail}; got {[dict(x) for x in out]}; left={left} right={right} by={by}")
                continue
        else:
            want = R.REF[join](left, right, by1, by2, fm)
            if got != R.lkey(want):
                clause = "length" if len(out) != len(want) else "items"
                rec.violation(join, clause, one, f"got {[dict(x) for x in out]} expected {want}; left={left} right={right} by={by}")
                continue
        rec.outcome((join, got))


# ---------------------------------------------------------------------------
# aggregate
# ---------------------------------------------------------------------------

def item_digest(x):
    return repr(sorted(x.items()))


def group_digest(group):
    return tuple(item_digest(x) for x in group)


def size_with_default(group, extra=None):
    """A summary function with an OPTIONAL second parameter (like `lambda g, k=k: ...`): it is called with the group only."""
    return (len(group), repr(extra))


def check_agg(case, rec):
    items, by = case["items"], list(case["by"])
    ik = R.lkey(items)
    rec.state(("lists", ik))
    nontrivial = len(items) >= 2 and _repeats_or_none(items, by)
    rec.case((ik, tuple(by)), nontrivial)
    rec.trans()
    groups = R.ref_groups(items, by)
    want = []
    for kv, idx in groups:
        g = dict(zip(by, kv))
        g["n"] = len(idx)
        g["ids"] = tuple(item_digest(items[i]) for i in idx)
        g["sd"] = (len(idx), "None")
        want.append(g)
    if case.get("edit_between"):
        # the grouped list was aggregated, then its first item was moved (in place) into the last item's group:
        # the second aggregate describes what the list holds NOW
        items = [dict(x) for x in items]
        first_keys = {k: items[-1][k] for k in by}
        a = lod_via(items, case.get("via"))
        try:
            g = a.group_by(*by)
            g.aggregate(n=len, ids=group_digest)
            for k, v in first_keys.items():
                g[0][k] = v
        except Exception as e:
            rec.violation("aggregate", "raised", case, f"{type(e).__name__}: {e}; items={items} by={by}")
            return
        items[0].update(first_keys)
        groups = R.ref_groups(items, by)
        want = []
        for kv, idx in groups:
            w = dict(zip(by, kv))
            w["n"] = len(idx)
            w["ids"] = tuple(item_digest(items[i]) for i in idx)
            w["sd"] = (len(idx), "None")
            want.append(w)
    a = lod_via(items, case.get("via")) if not case.get("edit_between") else a
    try:
        if case.get("edit_between"):
            out = g.aggregate(n=len, ids=group_digest, sd=size_with_default)
        if case.get("regroup"):
            # the same list object was grouped (by other keys) and aggregated before
            a.group_by(*case["regroup"]).aggregate(n=len)
        if not case.get("edit_between"):
            g = a.group_by(*by)
            if case.get("twice"):
                g.aggregate(n=len)   # the grouped list has been aggregated before: it is still grouped
            out = g.aggregate(n=len, ids=group_digest, sd=size_with_default)
    except Exception as e:
        rec.violation("aggregate", "raised", case, f"{type(e).__name__}: {e}; items={items} by={by}")
        return
    if not isinstance(out, list) or not all(isinstance(x, dict) for x in out):
        rec.violation("aggregate", "malformed-result", case, f"result is not a list of dicts: {out!r}")
        return
    got = R.lkey(out)
    rec.state(("lists", got))
    if got != R.lkey(want):
        try:
            got_groups = [[x[k] for k in by] for x in out]
        except KeyError:
            got_groups = None
        want_groups = [kv for kv, _ in groups]
        if got_groups is None or any(set(x) != set(by) | {"n", "ids", "sd"} for x in out):
            clause = "item-shape"
        elif sorted(map(R.none_last, got_groups)) != sorted(map(R.none_last, want_groups)):
            clause = "groups"
        elif got_groups != want_groups:
            clause = "order"
        else:
            clause = "summary"
        rec.violation("aggregate", clause, case, f"got {[dict(x) for x in out]} expected {want}; items={items} by={by}")
        return
    rec.outcome(("aggregate", got))


def check_case(case, rec):
    if case["part"] == "join":
        check_join(case, rec)
    elif case["part"] == "agg":
        check_agg(case, rec)
    else:
        raise ValueError(case["part"])


# ---------------------------------------------------------------------------
# enumeration
# ---------------------------------------------------------------------------

def run_shard(shard, rec):
    if shard["part"] == "join":
        nk, by, rnames, pkey, with_full = CFG[shard["cfg"]]
        joins = JOINS if with_full else JOINS[:-1]
        combos = list(itertools.product(KEYVALS, repeat=nk))
        nl, nr, prefix = shard["nl"], shard["nr"], tuple(shard["prefix"])
        rights = [[right_item(rnames, pkey, combos[c], j) for j, c in enumerate(cs)]
                  for cs in itertools.product(range(len(combos)), repeat=nr)]
        count = 0
        for rest in itertools.product(range(len(combos)), repeat=nl - len(prefix)):
            left = [left_item(nk, combos[c], i) for i, c in enumerate(prefix + rest)]
            for right in rights:
                case = {"part": "join", "left": left, "right": right, "by": by, "joins": joins}
                if shard["cfg"] in KEY_RENAME:
                    case["left"], _ = renamed_keys(shard["cfg"], left, by)
                    case["right"], case["by"] = renamed_keys(shard["cfg"], right, by)
                check_case(case, rec)
                if 1 <= nl <= 2 and shard["cfg"] in ("1-same", "1-ren", "2-same"):
                    check_case(dict(case, alias_left=True), rec)
                if nl <= 2 and nr <= 2 and shard["cfg"] in ("1-ren", "2-mixed"):
                    # a (left, right) pair written as a list: accepted like a tuple on the unchanged tree
                    check_case(dict(case, pair_form="list"), rec)
                if nl <= 2 and nr <= 2:
                    for via in VIAS:
                        check_case(dict(case, via=via), rec)
                count += 1
                if count % 997 == 1:
                    rec.sample({"part": "join", "left": left, "right": right, "by": by, "joins": joins})
    else:
        n, prefix = shard["n"], tuple(shard["prefix"])
        combos = list(itertools.product(KEYVALS, K2VALS_AGG))
        count = 0
        for rest in itertools.product(range(len(combos)), repeat=n - len(prefix)):
            items = [agg_item(combos[c], i) for i, c in enumerate(prefix + rest)]
            for by in AGG_BY:
                case = {"part": "agg", "items": items, "by": by}
                check_case(case, rec)
                if 1 <= n <= 3:
                    check_case(dict(case, twice=True), rec)
                if n <= 3:
                    for via in VIAS:
                        check_case(dict(case, via=via), rec)
                if 2 <= n <= 3:
                    check_case(dict(case, edit_between=True), rec)
                if 2 <= n <= 3:
                    check_case(dict(case, regroup=[k for k in ("k2", "k") if k not in by] or list(reversed(by))), rec)
                count += 1
                if count % 997 == 1:
                    rec.sample(case)
            if n <= 3:
                # group keys named like parameters of ListOfDicts methods (filter(function=...), select(*keys), ...)
                renamed = [{"function": x["k"], "keys": x["k2"], "id": x["id"]} for x in items]
                for by in (["function"], ["keys"], ["function", "keys"]):
                    check_case({"part": "agg", "items": renamed, "by": by}, rec)
                # distinct key values with EQUAL hashes (hash(-1) == hash(-2) in CPython) are still distinct groups (seeded C16-r12-1)
                collide = [dict(x, k={1: -1, 2: -2}.get(x["k"], x["k"])) for x in items]
                for by in AGG_BY:
                    check_case({"part": "agg", "items": collide, "by": by}, rec)


# ---------------------------------------------------------------------------
# narrow classifiers (signatures for known_findings.json; they suppress nothing by themselves)
# ---------------------------------------------------------------------------

def classify(v):
    case = v.get("case") or {}
    if v.get("op") != "full_join" or case.get("part") != "join":
        return None
    by = R.norm_by(case["by"])
    by1, by2 = R.split_by(by)
    left, right = case["left"], case["right"]
    fm = R.first_matches(left, right, by1, by2)
    leftover = [j for j in range(len(right)) if j not in fm]
    if v.get("clause") == "raised" and by1 != by2 and leftover:
        return "renamed-by-and-a-right-item-not-merged-into-the-left-join"
    if v.get("clause") == "extra-item" and leftover:
        lpay = set().union(*[set(R.nonkey(x, by1)) for x in left]) if left else set()
        rpay = set().union(*[set(R.nonkey(x, by2)) for x in right])
        dup = [j for j in leftover
               if any(R.keys_equal(R.keyvals(l, by1), R.keyvals(right[j], by2)) for l in left)]
        if (lpay & rpay) and dup:
            return "payload-name-clash-and-a-later-duplicate-right-item-with-a-left-match"
    return None
