# -*- coding: utf-8 -*-
"""
C01 - every data frame is a well-formed rectangular table.

E2: explicit-state breadth-first search (mc/dfbfs.py) over histories of public
DataFrame operations from seven initial frames (0-column, 0-row, 1-row,
3-row, all-missing, names clashing with dict methods / not identifiers).
Invariants in every state: columns are one-dimensional DataFrameColumns of
equal length, unique names in a stable order, broadcast of scalars/length-1
values and rejection of every other length mismatch, key/attribute
coherence (present <-> reachable both ways; removed <-> reachable by neither).
The reference table is stepped in lock-step and must agree after every
transition, so states the model identifies must be identical in the
implementation whatever history reached them.
"""

from mc import dfbfs

ID = "C01"
TITLE = "Every data frame is a well-formed rectangular table"
RULE = ("states = canonical (columns in order with dtype and values, grouping, instance-dict keys, seen-but-absent names); transitions = one public operation with one "
        "menu argument; every transition is executed on the real frame and on the reference table; non-trivial = every transition (the menu is computed from the state)")
ASSUMPTIONS = [
    "histories deeper than the depth bound, frames with more than 4 columns or 6 rows (transitions beyond the caps are counted in pruned_by_cap) and values outside the initial frames / menu values are not explored",
    "dict methods that bypass the class (dict.update(d, ...), |=, setdefault) are not public DataFrame operations and are not in the alphabet",
    "scalar broadcast onto a frame with zero rows is unspecified and not in the menu (DESIGN 3.5)",
    "column position after update() and after a colnames assignment is not pinned; the model adopts the observed order",
    "group_by as a persistent mark is not a transition (count() exercises grouping on a copy)",
]
BOUND = {
    "quick": "7 initial frames; depth 2 over the full menu plus depth 3 along the hidden-state sub-alphabet (in-place edits, observe-and-discard calls, cell pokes) ending in any operation; full menu (about 40-95 operations per state incl. converters, subsetting, sort, 5 joins, rbind/cbind/update, modify, select/rename, in-place set/del/pop/popitem/colnames, re-assignment of deleted names); depth 2; caps 6 columns / 6 rows; all single transitions again under 2 (thorough 4) other string-hash seeds",
    "thorough": "same menu, depth 3 (hidden-state sub-alphabet depth 4)",
}
TIME_CAP = {"quick": 300, "thorough": 3300}
CLAUSES = {"C01"}


def depth_of(tier):
    return 2 if tier == "quick" else 3


def shards(tier):
    out = []
    for init in range(len(dfbfs.INITS)):
        out.append({"init": init, "prefix": [], "depth": 1})
        d, M, seen = dfbfs.build_init(init)
        for op in dfbfs.menu(M, seen):
            out.append({"init": init, "prefix": [op], "depth": depth_of(tier) - 1})
            if op["op"] in dfbfs.INPLACE:
                # one level deeper along the sub-alphabet that leaves hidden state on the object
                # (in-place edits, observations, cell pokes); the last step is again any operation
                out.append({"init": init, "prefix": [op], "depth": depth_of(tier), "hidden_then_any": True})
    # every single transition once more under other string-hash seeds (fresh interpreters): nothing may depend on
    # the iteration order of a set of names
    for seed in (["1", "2"] if tier == "quick" else ["1", "2", "3", "4"]):
        for init in range(len(dfbfs.INITS)):
            out.append({"init": init, "prefix": [], "depth": 1, "__env__": {"PYTHONHASHSEED": seed}})
    return out


def run_shard(shard, rec):
    init, prefix = shard["init"], shard["prefix"]
    if not prefix:
        check_case({"init": init, "history": []}, rec)
        dfbfs.explore(init, [], 1, rec, CLAUSES)
        rec.sample({"init": dfbfs.INITS[init], "history": []})
        return
    last = shard["depth"] - 1
    filt = (lambda level, op: level == last or op["op"] in dfbfs.INPLACE) if shard.get("hidden_then_any") else None
    dfbfs.explore(init, prefix, shard["depth"], rec, CLAUSES, op_filter=filt)
    rec.sample({"init": dfbfs.INITS[init], "history": prefix})


def check_case(case, rec):
    dfbfs.check_history(case, rec, CLAUSES)


def classify(v):
    return None
