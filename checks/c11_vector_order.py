# -*- coding: utf-8 -*-
"""
C11 - Vector sort, rank and unique are total and mutually consistent.

E1: all vectors of length 0..N over the kind's alphabet x sort(dir=+-1),
rank(method in min, max, ordinal), unique(). Oracle: the relations of the
statement, computed on plain Python values.
"""

import itertools

import dataiter as di
from mc import values as V

ID = "C11"
TITLE = "Vector sort, rank and unique are total and mutually consistent"
RULE = ("cases = (vector, method, argument) enumerated exhaustively; distinct = digest of (dtype, values, method, argument); "
        "non-trivial = >= 2 elements with a tie or a missing value")
ASSUMPTIONS = [
    "values outside the alphabets of DESIGN section 4 and vectors longer than the bound are not explored",
    "object vectors hold values whose str() order equals their natural order (the code documents 'compare objects via str(x)')",
    "tie order among equal elements in Vector.sort is not pinned by the statement and not checked",
]
BOUND = {
    "quick": "length 0..4 (0..5 for alphabets <= 4 values) over 'quick' alphabets of f8,i8,u1,b1,str,U,D,us,obj(int|None),obj(bool|None); marker-like text, extreme dates, int64 ends, int32 / float32, both sides of the int32 range, strings differing in a trailing NUL; array forms and provenances (strided, other byte order, NumPy StringDType, product of concat; thorough: more)",
    "thorough": "length 0..5 (0..6 for alphabets <= 4 values) over 'thorough' alphabets; plus the additions listed for the quick tier",
}
TIME_CAP = {"quick": 240, "thorough": 3000}

KINDS = ["f8", "i8", "u1", "b1", "str", "U", "D", "us", "ns", "td", "obj", "objb", "objs", "strz", "i8w", "i4", "f4", "strm", "Dx", "i8x", "i1", "i2", "u4"]
REAL_KIND = {"objb": "obj", "objs": "obj", "strz": "str", "i8w": "i8", "strm": "str", "Dx": "D", "i8x": "i8"}
METHODS = [("sort", 1), ("sort", -1), ("rank", "min"), ("rank", "max"), ("rank", "ordinal"), ("unique", None)]


def alpha_of(kind, tier):
    if kind == "objb":
        return [None, False, True]
    if kind == "objs":
        return [None, "None", "a", ""]  # the texts 'None' and '' are values here, not missing values
    if kind == "i8w":
        return [0, -3000000000, 5, 2147483648, -1]  # both sides of the int32 range next to small values
    if kind == "strm":
        return [None, "nan", "None", "NA", " a", "a ", "a"]  # text that looks like a missing marker, text differing in leading / trailing blanks
    if kind == "Dx":
        return [None, "0001-01-01", "9999-12-31", "1677-09-21", "2262-04-12"]  # dates outside (and at the edge of) the range of nanosecond datetimes
    if kind == "i8x":
        return [0, -9223372036854775808, 9223372036854775807, -1]  # the ends of the int64 range (negation and differences overflow there)
    if kind == "strz":
        return [None, "a", "a\x00", "b"]  # strings that differ only in a trailing NUL (lost by fixed-width NumPy strings)
    return V.alphabet(kind, tier)


def shards(tier):
    out = []
    for kind in KINDS:
        alpha = alpha_of(kind, tier)
        n = (5 if tier != "quick" else 4) + (1 if len(alpha) <= 4 else 0)
        if len(alpha) ** n > 4000:
            for first in range(len(alpha)):
                out.append({"kind": kind, "tier": tier, "n": n, "first": first})
            out.append({"kind": kind, "tier": tier, "n": n - 1, "first": None})
        else:
            out.append({"kind": kind, "tier": tier, "n": n, "first": None})
    from mc import harness
    return harness.with_array_forms(out, tier, lambda sh: sh.get("first") is None and sh["kind"] != "strz")


def okey(v):
    return None if v is None else V.value_order_key(v)


class _Proxy:
    def __init__(self, rec, case):
        self.rec, self.case2 = rec, case

    def __getattr__(self, name):
        return getattr(self.rec, name)

    def violation(self, op, clause, case, detail="", cls=None):
        return self.rec.violation(op, "after-in-place-edit:" + clause, self.case2, detail, cls)


def check_case(case, rec):
    kind, toks = case["kind"], case["toks"]
    v = V.vector(REAL_KIND.get(kind, kind), toks)
    check_on(v, kind, toks, case["methods"], rec, case)


def check_on(v, kind, toks, methods, rec, case=None):
    case = case or {"methods": methods}
    before = V.col_key(v)
    rec.state(before)
    xs = V.cells(v)
    n = len(xs)
    ks = [okey(x) for x in xs]
    nm = [k for k in ks if k is not None]
    nontrivial = n >= 2 and (None in xs or len(set(map(repr, ks))) < n)
    for method, arg in methods:
        rec.case((before, method, arg), nontrivial)
        rec.trans()
        one = {"kind": kind, "toks": toks, "methods": [[method, arg]]}
        try:
            if method == "sort":
                out = v.sort(dir=arg)
            elif method == "rank":
                out = v.rank(method=arg)
            else:
                out = v.unique()
        except Exception as e:
            rec.violation(method, "raised", one, f"{type(e).__name__}: {e}")
            continue
        try:
            if not isinstance(out, di.Vector) or out.ndim != 1:
                rec.violation(method, "not-a-vector", one, f"{type(out).__name__} shape {getattr(out, 'shape', None)}")
                continue
            rec.state(V.col_key(out))
            ys = V.cells(out)
            msg = None
            if method == "sort":
                if not V.same_dtype(out.dtype, v.dtype):
                    msg = f"dtype {out.dtype} != {v.dtype}"
                elif sorted(map(repr, map(V.tok, ys))) != sorted(map(repr, map(V.tok, xs))):
                    msg = f"not a permutation: {ys} of {xs}"
                else:
                    k = sum(1 for y in ys if y is None)
                    if any(y is None for y in ys[:n - k]):
                        msg = f"missing values not last: {ys}"
                    else:
                        oy = [okey(y) for y in ys[:n - k]]
                        for a, b in zip(oy, oy[1:]):
                            if (arg > 0 and a > b) or (arg < 0 and a < b):
                                msg = f"not ordered for dir={arg}: {ys}"
                                break
            elif method == "rank":
                if out.dtype.kind not in "iu":
                    msg = f"rank dtype {out.dtype}"
                elif arg == "min":
                    exp = [len(nm) + 1 if k is None else 1 + sum(1 for o in nm if o < k) for k in ks]
                    if ys != exp:
                        msg = f"rank(min) {ys} expected {exp} for {xs}"
                elif arg == "max":
                    exp = [n if k is None else sum(1 for o in nm if o <= k) for k in ks]
                    if ys != exp:
                        msg = f"rank(max) {ys} expected {exp} for {xs}"
                else:
                    order = sorted(range(n), key=lambda i: (ks[i] is None, ks[i] if ks[i] is not None else 0, i))
                    exp = [0] * n
                    for r, i in enumerate(order):
                        exp[i] = r + 1
                    if ys != exp:
                        msg = f"rank(ordinal) {ys} expected {exp} for {xs}"
            else:
                if not V.same_dtype(out.dtype, v.dtype):
                    msg = f"dtype {out.dtype} != {v.dtype}"
                else:
                    seen, exp = [], []
                    for x, k in zip(xs, ks):
                        if not any((k is None and s is None) or (k is not None and s is not None and k == s) for s in seen):
                            seen.append(k)
                            exp.append(x)
                    if [V.tok(y) for y in ys] != [V.tok(x) for x in exp]:
                        msg = f"unique {ys} expected {exp} for {xs}"
            if msg:
                rec.violation(method, "relation", one, msg)
                continue
            rec.outcome((method, arg, tuple(map(V.tok, ys))))
            if V.col_key(v) != before:
                rec.violation(method, "receiver-changed", one, "receiver changed")
                return
        except Exception as e:
            rec.violation(method, "malformed-result", one, f"{type(e).__name__}: {e}")
    rec.sample({"kind": kind, "toks": toks, "methods": case["methods"][:2]})
    if case.get("poke") and n >= 2 and not V.same_value(xs[0], xs[-1]):
        # methods were called on v above (anything they cached on the object is now stale)
        v[0] = v[n - 1]
        toks2 = [toks[-1]] + list(toks[1:])
        sub = _Proxy(rec, {"kind": kind, "toks": toks, "methods": case["methods"], "poke": True})
        check_on(v, kind, toks2, [["sort", 1], ["sort", -1], ["rank", "min"], ["rank", "ordinal"], ["unique", None]], sub)


def run_shard(shard, rec):
    kind, tier, n = shard["kind"], shard["tier"], shard["n"]
    alpha = alpha_of(kind, tier)
    if shard["first"] is None:
        it = V.seqs(alpha, 0, n)
    else:
        it = ((alpha[shard["first"]],) + rest for rest in itertools.product(alpha, repeat=n - 1))
    methods = [list(m) for m in METHODS]
    for toks in it:
        check_case({"kind": kind, "toks": list(toks), "methods": methods, "poke": kind != "strz"}, rec)


def classify(v):
    c = v.get("case") or {}
    toks = c.get("toks") or []
    if (c.get("kind") == "strz" and v["clause"] == "relation" and not c.get("poke")
            and any(isinstance(t, str) and t.endswith("\x00") for t in toks) and "a" in toks):
        # sort / rank / unique compare through a fixed-width cast, which drops trailing NULs: 'a' and 'a\x00' tie
        return "string-differing-only-in-trailing-NUL"
    return None
