# -*- coding: utf-8 -*-
"""
C06 - operations neither mutate nor alias their inputs.

E1: the public method lists of DataFrame and Vector are taken by
introspection; every method x its argument menu is called on operand frames /
vectors of every dtype family (incl. legacy fixed-width <U and object columns)
with 0, 1 and 3 rows. Oracle per call: (a) byte-level snapshot of receiver and
arguments identical before/after; (b) no result column shares memory with an
operand column; (c) the operational definition: scribble over every element of
the result in place -> operands unchanged; scribble over the operands ->
result unchanged. A public method without an argument menu makes the run fail
as 'uncovered' (infrastructure error), so a new method cannot slip past.
E2: the C01 breadth-first search is re-run with the C06 oracle on every
transition, so an alias created by one operation and exposed by a later one
is reached.
"""

import inspect
import sys
import io
import contextlib
import os
import datetime
import numpy as np

import dataiter as di
from dataiter import DataFrame, Vector
from mc import values as V
from mc import dfbfs

ID = "C06"
TITLE = "Operations neither mutate nor alias their inputs"
RULE = ("E1: cases = (operand, method, argument) for every introspected public method; E2: BFS transitions as in C01; distinct = digest of (operand state, method, args); "
        "non-trivial = the operand has >= 1 row")
ASSUMPTIONS = [
    "documented exceptions are not checked for isolation: group_by (marks and returns the receiver), copy (shallow), item/attribute assignment and deletion, pop, popitem, colnames assignment",
    "mutable Python objects held as cells of object columns may be shared between frames (only the arrays are examined)",
    "the .dt/.re/.str proxies cache themselves as instance attributes of the vector; instance attributes of Vectors are not part of the snapshot",
    "operands outside the menus and histories deeper than the BFS bound are not explored",
]
BOUND = {
    "quick": "E1: 10-column operand frames (i8,f8,b1,str,<U,obj,D,us,u1,ns) with 0,1,3 rows x every public DataFrame method x menu (sort/unique/group by every column, 5 joins, ...); Vectors of 10 kinds x lengths 0,1,3 x every public Vector method; E2: BFS depth 2 with the C06 oracle",
    "thorough": "E1 as quick plus 2- and 4-row operands; E2: BFS depth 3",
}
TIME_CAP = {"quick": 300, "thorough": 3300}
CLAUSES = {"C06"}

COLS = [("i", "i8"), ("f", "f8"), ("b", "b1"), ("s", "str"), ("u", "U"), ("o", "obj"), ("d", "D"), ("t", "us"), ("w", "u1"), ("n", "ns")]
IN_PLACE_DOCUMENTED = {"group_by", "copy", "pop", "popitem"}


def operand_cols(rows, shift=0):
    cols = []
    for j, (name, kind) in enumerate(COLS):
        alpha = V.alphabet(kind, "quick")
        if kind == "str":
            alpha = [None, "a", V.LONG_A, "b"]
        toks = [alpha[(i + j + shift) % len(alpha)] for i in range(rows)]
        cols.append([name, kind, toks])
    return cols


class Sentinel:
    def __repr__(self):
        return "<scribble>"


def scribble(arr):
    """Write a different value into every element, in place."""
    a = np.asarray(arr)
    if a.size == 0:
        return
    k = a.dtype.kind
    if k == "b":
        a[...] = ~a
    elif k in "iu":
        a[...] = np.bitwise_xor(a, 1)
    elif k == "f":
        a[...] = np.where(np.isfinite(a), a + 1, 0.0)
    elif k == "M":
        unit = np.datetime_data(a.dtype)[0]
        a[...] = np.where(np.isnat(a), np.datetime64("2001-01-01").astype(a.dtype), a + np.timedelta64(1, unit))
    elif k == "m":
        a[...] = np.where(np.isnat(a), np.timedelta64(1, "D").astype(a.dtype), a + a.dtype.type(1, np.datetime_data(a.dtype)[0]))
    elif k == "U":
        a[...] = np.where(a == "Z", "Y", "Z")
    elif k == "S":
        a[...] = np.where(a == b"Z", b"Y", b"Z")
    elif k == "O":
        for i in range(a.size):
            a[i] = Sentinel()
    elif isinstance(a.dtype, np.dtypes.StringDType):
        a[...] = np.where(a == "Z", "Y", "Z")
    else:
        raise RuntimeError(f"scribble: unsupported dtype {a.dtype}")


def snap_array(a):
    a = np.asarray(a)
    if a.dtype.kind in "biufMmUS":
        return (str(a.dtype), a.shape, a.tobytes())
    return (str(a.dtype), a.shape, tuple(V.tok(x) if not isinstance(x, Sentinel) else "<scribble>" for x in a.tolist()))


def snap(obj):
    if isinstance(obj, DataFrame):
        return ("DF", type(obj).__name__, tuple((k, snap_array(dict.__getitem__(obj, k))) for k in dict.keys(obj)),
                tuple(getattr(obj, "_group_colnames", ())), tuple(sorted(obj.__dict__.keys())))
    if isinstance(obj, np.ndarray):
        return ("V", type(obj).__name__, snap_array(obj))
    return ("X", repr(obj))


def arrays_of(obj, depth=0):
    """All NumPy arrays reachable in a result."""
    if isinstance(obj, DataFrame):
        return [np.asarray(c) for c in dict.values(obj)]
    if isinstance(obj, np.ndarray):
        return [np.asarray(obj)]
    if isinstance(obj, (list, tuple)) and depth < 2:
        out = []
        for x in obj:
            out += arrays_of(x, depth + 1)
        return out
    try:
        import pyarrow as pa
        if isinstance(obj, pa.Table):
            return [a for col in obj.columns for a in arrays_of(col, depth + 1)]
        if isinstance(obj, pa.ChunkedArray):
            return [a for chunk in obj.chunks for a in arrays_of(chunk, depth + 1)]
        if isinstance(obj, pa.Array):
            try:
                return [obj.to_numpy(zero_copy_only=True)]   # a view of the Arrow buffer (primitive types without nulls)
            except Exception:
                return []
    except ImportError:
        pass
    try:
        import pandas as pd
        if isinstance(obj, pd.DataFrame):
            return [obj[c].to_numpy() for c in obj.columns]
    except Exception:
        pass
    return []


# ---------------------------------------------------------------------------
# menus: name -> list of (label, call(receiver, args) -> result, [argument builders])

def df_menu():
    m = {}
    names = [c[0] for c in COLS]

    def add(name, label, fn, nargs=0):
        m.setdefault(name, []).append((label, fn, nargs))

    for c in names:
        add("sort", f"{c}=1", lambda d, a, c=c: d.sort(**{c: 1}))
        add("sort", f"{c}=-1", lambda d, a, c=c: d.sort(**{c: -1}))
        add("unique", c, lambda d, a, c=c: d.unique(c))
        add("drop_na", c, lambda d, a, c=c: d.drop_na(c))
        add("count", c, lambda d, a, c=c: d.count(c))
        add("split", c, lambda d, a, c=c: d.split(c))
        add("aggregate", c, lambda d, a, c=c: _grouped(d, c, lambda g: g.aggregate(n=di.count(), x=di.first("i"), y=lambda x: x.nrow)))
        add("modify", f"grouped:{c}", lambda d, a, c=c: _grouped(d, c, lambda g: g.modify(m=lambda x: x.nrow)))
        # functions that overwrite the group they are handed: the frame the method was called on still has to be left alone
        add("modify", f"grouped, mutating function:{c}", lambda d, a, c=c: _grouped_same(d, c, lambda g: g.modify(m=_overwriting)))
        add("aggregate", f"mutating function:{c}", lambda d, a, c=c: _grouped_same(d, c, lambda g: g.aggregate(m=_overwriting, x=di.first("i"))))
        for j in ("left_join", "inner_join", "semi_join", "anti_join", "full_join"):
            add(j, c, lambda d, a, c=c, j=j: getattr(d, j)(a[0], c), 1)
    # called on a receiver that IS grouped (the [grouped receiver] variants): the mark is part of the receiver and stays
    add("aggregate", "receiver as it is", lambda d, a: d.aggregate(n=di.count(), x=di.first("i")) if d._group_colnames else None)
    add("modify", "receiver as it is", lambda d, a: d.modify(m=lambda x: x.nrow))
    add("sort", "two keys", lambda d, a: d.sort(s=1, f=-1))
    add("unique", "all", lambda d, a: d.unique())
    add("anti_join", "renamed", lambda d, a: d.anti_join(a[0].rename(k2="i"), ("i", "k2")), 1)
    add("filter", "mask", lambda d, a: d.filter(np.arange(d.nrow) % 2 == 0))
    add("filter", "callable", lambda d, a: d.filter(lambda x: x.i >= 0))
    add("filter", "eq", lambda d, a: d.filter(b=True))
    add("filter_out", "mask", lambda d, a: d.filter_out(np.arange(d.nrow) % 2 == 0))
    # a row condition AND column=value pairs in one call; the condition is an argument's column / the receiver's own column
    add("filter", "mask+eq", lambda d, a: d.filter(a[0].b, s="a"), 1)
    add("filter", "callable+eq", lambda d, a: d.filter(lambda x: x.b, s="a"))
    add("filter_out", "mask+eq", lambda d, a: d.filter_out(a[0].b, s="a"), 1)
    add("filter_out", "callable+eq", lambda d, a: d.filter_out(lambda x: x.b, s="a"))
    add("filter_out", "eq", lambda d, a: d.filter_out(s="a"))
    add("slice", "rows", lambda d, a: d.slice(rows=list(range(d.nrow))[::-1]))
    add("slice", "all", lambda d, a: d.slice())
    # rows / cols given as range objects (a range invites an implementation to index with a basic slice, which gives views; seeded C06-r12-1)
    add("slice", "rows as range", lambda d, a: d.slice(rows=range(d.nrow)))
    add("slice", "rows as inner range", lambda d, a: d.slice(rows=range(min(1, d.nrow), d.nrow)))
    add("slice", "rows as range, cols", lambda d, a: d.slice(rows=range(d.nrow), cols=[1, 0]))
    add("slice", "cols as range", lambda d, a: d.slice(cols=range(d.ncol)))
    add("slice_off", "rows as range", lambda d, a: d.slice_off(rows=range(min(1, d.nrow))))
    add("slice", "cols", lambda d, a: d.slice(cols=[1, 0]))
    add("slice", "cols as int64 array", lambda d, a: d.slice(cols=a[0]), "idx")
    add("slice", "rows as int64 array", lambda d, a: d.slice(rows=a[0][a[0] < d.nrow] if d.nrow else a[0][:0]), "idx")
    add("slice_off", "cols as int64 array", lambda d, a: d.slice_off(cols=a[0]), "idx")
    add("slice_off", "cols as Vector", lambda d, a: d.slice_off(cols=di.Vector(a[0])), "idx")
    add("slice_off", "rows", lambda d, a: d.slice_off(rows=[0] if d.nrow else []))
    add("slice_off", "none", lambda d, a: d.slice_off())
    add("head", "n", lambda d, a: d.head(2))
    add("head", "default", lambda d, a: d.head())
    add("tail", "n", lambda d, a: d.tail(2))
    add("sample", "n", lambda d, a: d.sample(2))
    add("select", "some", lambda d, a: d.select("s", "i"))
    add("select", "all", lambda d, a: d.select(*names))
    add("unselect", "one", lambda d, a: d.unselect("s"))
    add("unselect", "none", lambda d, a: d.unselect())
    add("rename", "one", lambda d, a: d.rename(z="i"))
    add("rename", "none", lambda d, a: d.rename())
    add("rbind", "self", lambda d, a: d.rbind(d))
    add("rbind", "other", lambda d, a: d.rbind(a[0]), 1)
    add("rbind", "none", lambda d, a: d.rbind())
    # arguments that lack some of the receiver's (and of each other's) columns, and bring one of their own
    add("rbind", "ragged others", lambda d, a: d.rbind(a[0], a[1]), "ragged2")
    add("rbind", "ragged other, narrow receiver", lambda d, a: d.select("s", "i").rbind(a[1]), "ragged2")
    add("cbind", "two others", lambda d, a: d.cbind(a[0], a[1]), "ragged2")
    add("update", "two others", lambda d, a: d.update(a[0], a[1]), "ragged2")
    add("cbind", "other", lambda d, a: d.cbind(a[0].rename(**{n + "2": n for n in names})), 1)
    add("cbind", "none", lambda d, a: d.cbind())
    add("update", "other", lambda d, a: d.update(a[0].select("i", "s").rename(s2="s")), 1)
    add("modify", "vector", lambda d, a: d.modify(z=d.i))
    add("modify", "callable", lambda d, a: d.modify(z=lambda x: x.f))
    add("modify", "existing", lambda d, a: d.modify(i=d.i))
    add("modify", "arg column", lambda d, a: d.modify(z=a[0].f), 1)
    add("clear", "", lambda d, a: d.clear())
    add("deepcopy", "", lambda d, a: d.deepcopy())
    add("compare", "", lambda d, a: d.unique("i").compare(a[0].unique("i"), "i"), 1)
    # plain Python containers as arguments are arguments too: the caller's list / dict is as it was afterwards
    add("compare", "ignore_columns list", lambda d, a: d.unique("i").compare(a[0].unique("i"), "i", ignore_columns=a[1]), "frame+names")
    add("compare", "two identifiers, ignore_columns list", lambda d, a: d.unique("i", "s").compare(a[0].unique("i", "s"), "i", "s", ignore_columns=a[1]), "frame+names")
    add("slice", "rows and cols as lists", lambda d, a: d.slice(rows=a[0][:d.nrow and 1], cols=a[0]), "intlist")
    add("slice_off", "cols as list", lambda d, a: d.slice_off(cols=a[0]), "intlist")
    add("filter", "list of booleans", lambda d, a: d.filter(a[0][:d.nrow]), "boollist")
    add("filter_out", "list of booleans", lambda d, a: d.filter_out(a[0][:d.nrow]), "boollist")
    add("from_json", "columns list and dtypes dict", lambda d, a: DataFrame.from_json(d.select("i", "f", "b", "s").to_json(), columns=a[0], dtypes=a[1]), "names+dtypes")
    add("from_pandas", "dtypes dict", lambda d, a: DataFrame.from_pandas(d.select("i", "f", "b", "s").to_pandas(), dtypes=a[1]), "names+dtypes")
    add("from_arrow", "dtypes dict", lambda d, a: DataFrame.from_arrow(d.select("i", "f", "b", "s").to_arrow(), dtypes=a[1]), "names+dtypes")
    add("map", "", lambda d, a: d.map(lambda x, i: x.i[i]))
    add("to_arrow", "", lambda d, a: d.unselect("o").to_arrow())
    add("to_arrow", "called on the receiver itself (no object column)", lambda d, a: d.to_arrow(), "noobj")
    add("to_pandas", "called on the receiver itself (no object column)", lambda d, a: d.to_pandas(), "noobj")
    add("to_pandas", "", lambda d, a: d.to_pandas())
    add("to_json", "", lambda d, a: d.select("i", "f", "b", "s").to_json())
    add("to_list_of_dicts", "", lambda d, a: d.to_list_of_dicts())
    add("to_string", "", lambda d, a: d.to_string())
    add("to_string", "narrow", lambda d, a: d.to_string(max_rows=1, max_width=20, truncate_width=3))
    add("print_", "", lambda d, a: _quiet(d.print_))
    add("print_memory_use", "", lambda d, a: _quiet(d.print_memory_use))
    add("print_na_counts", "", lambda d, a: _quiet(d.print_na_counts))
    add("from_arrow", "", lambda d, a: DataFrame.from_arrow(d.unselect("o").to_arrow()))
    add("from_pandas", "", lambda d, a: DataFrame.from_pandas(d.to_pandas()))
    add("from_json", "", lambda d, a: DataFrame.from_json(d.select("i", "f", "b", "s").to_json()))
    for fmt, sel in (("csv", ["i", "f", "b", "s", "d"]), ("json", ["i", "f", "b", "s"]), ("npz", names), ("parquet", ["i", "f", "b", "s", "d", "t", "n"]), ("pickle", names)):
        add(f"write_{fmt}", "", lambda d, a, fmt=fmt, sel=sel: _write_read(d.select(*sel), fmt, False))
        add(f"read_{fmt}", "", lambda d, a, fmt=fmt, sel=sel: _write_read(d.select(*sel), fmt, True))
    return m


def _overwriting(x):
    n = x.nrow
    x.i[:] = 0
    x.f[:] = 0.5
    return n


def _grouped_same(d, c, f):
    """Group the receiver itself (group_by marks and returns the receiver), call, remove the mark."""
    try:
        return f(d.group_by(c))
    finally:
        d._group_colnames = ()


def _grouped(d, c, f):
    try:
        return f(d.copy().group_by(c))
    finally:
        d._group_colnames = ()


def _quiet(f):
    buf = io.StringIO()
    with contextlib.redirect_stdout(buf):
        f()
    return buf.getvalue()


def _write_read(d, fmt, read):
    if d.nrow == 0 and fmt in ("csv", "json"):
        return None
    path = os.path.join(os.environ.get("MC_SCRATCH", "/tmp"), f"c06-{os.getpid()}.{fmt}")
    getattr(d, f"write_{fmt}")(path)
    try:
        return getattr(DataFrame, f"read_{fmt}")(path) if read else None
    finally:
        if os.path.exists(path):
            os.unlink(path)


def vec_menu():
    m = {}

    def add(name, label, fn, kinds=None):
        m.setdefault(name, []).append((label, fn, kinds))

    for name in ("as_boolean", "as_float", "as_integer"):
        add(name, "", lambda v, a, name=name: getattr(v, name)(), {"i8", "f8n", "b1", "u1"})
    add("as_bytes", "", lambda v, a: v.as_bytes(), {"str", "i8"})
    add("as_date", "", lambda v, a: v.as_date(), {"D", "us"})
    add("as_datetime", "", lambda v, a: v.as_datetime(), {"D", "us"})
    add("as_object", "", lambda v, a: v.as_object())
    add("as_string", "", lambda v, a: v.as_string(), {"i8", "f8", "b1", "str", "U", "D", "us", "u1"})
    add("concat", "self", lambda v, a: v.concat(v))
    add("concat", "other", lambda v, a: v.concat(a[0]))
    # an element-less vector on either side, nothing to append at all: the result is still a new vector
    add("concat", "empty other", lambda v, a: v.concat(a[0].head(0)))
    add("concat", "empty receiver", lambda v, a: v.head(0).concat(v))
    add("concat", "empty others around", lambda v, a: v.concat(a[0].head(0), a[0], a[0].head(0)))
    add("concat", "none", lambda v, a: v.concat())
    add("drop_na", "", lambda v, a: v.drop_na())
    add("equal", "", lambda v, a: v.equal(a[0]))
    add("fast", "", lambda v, a: Vector.fast(v))
    add("fast", "dtype", lambda v, a: Vector.fast(v, v.dtype))
    add("get_memory_use", "", lambda v, a: v.get_memory_use())
    add("head", "", lambda v, a: v.head(2))
    add("head", "default", lambda v, a: v.head())
    add("tail", "", lambda v, a: v.tail(2))
    for name in ("is_boolean", "is_bytes", "is_datetime", "is_float", "is_integer", "is_na", "is_number", "is_object", "is_string", "is_timedelta"):
        add(name, "", lambda v, a, name=name: getattr(v, name)())
    add("map", "", lambda v, a: v.map(lambda x: x))
    add("range", "", lambda v, a: v.range(), {"i8", "f8", "u1", "D", "us"})
    for meth in ("min", "max", "ordinal"):
        add("rank", meth, lambda v, a, meth=meth: v.rank(method=meth))
    add("replace_na", "", lambda v, a: v.replace_na(v[0] if len(v) else 0))
    add("sample", "", lambda v, a: v.sample(2))
    add("sort", "1", lambda v, a: v.sort(dir=1))
    add("sort", "-1", lambda v, a: v.sort(dir=-1))
    add("to_string", "", lambda v, a: v.to_string())
    add("to_strings", "", lambda v, a: v.to_strings())
    add("to_strings", "pad", lambda v, a: v.to_strings(pad=True, truncate_width=3))
    add("tolist", "", lambda v, a: v.tolist())
    add("unique", "", lambda v, a: v.unique())
    return m


VKINDS = ["i8", "f8", "f8n", "b1", "u1", "str", "U", "obj", "D", "us"]


def vec_tokens(kind, n, shift=0):
    k = "f8" if kind == "f8n" else kind
    alpha = V.alphabet(k, "quick")
    if kind == "f8n":
        alpha = ["1.0", "2.0", "0.0"]
    if kind == "str":
        alpha = [None, "a", V.LONG_A, "b"]
    return k, [alpha[(i + shift) % len(alpha)] for i in range(n)]


def public_methods(cls):
    out = []
    for name in dir(cls):
        if name.startswith("_"):
            continue
        try:
            attr = inspect.getattr_static(cls, name)
        except AttributeError:
            continue
        if isinstance(attr, property) or inspect.isclass(attr):
            continue
        owner = next((k for k in cls.__mro__ if name in k.__dict__), None)
        if owner is None or not owner.__module__.startswith("dataiter"):
            continue
        if callable(getattr(cls, name, None)):
            out.append(name)
    return out


def prepare(tier):
    dm, vm = df_menu(), vec_menu()
    missing = [f"DataFrame.{n}" for n in public_methods(DataFrame) if n not in dm and n not in IN_PLACE_DOCUMENTED]
    missing += [f"Vector.{n}" for n in public_methods(Vector) if n not in vm]
    if missing:
        raise RuntimeError(f"uncovered public methods (no argument menu registered in checks/c06_alias.py): {missing}")


def shards(tier):
    out = []
    rows = [0, 1, 3] if tier == "quick" else [0, 1, 2, 3, 4]
    for name in sorted(df_menu()):
        for r in rows:
            out.append({"part": "df", "method": name, "rows": r})
    for kind in VKINDS:
        for r in rows:
            out.append({"part": "vec", "kind": kind, "rows": r})
    out.append({"part": "pylist"})
    out.append({"part": "nparray"})
    # first-use probes: each runs in a fresh interpreter, as the very first thing the library does there
    for what in FRESH_CALLS:
        out.append({"part": "fresh", "what": what, "__env__": {"MC_FRESH": "1"}})
    depth = 2 if tier == "quick" else 3
    for init in range(len(dfbfs.INITS)):
        out.append({"part": "bfs", "init": init, "prefix": [], "depth": 1})
        d, M, seen = dfbfs.build_init(init)
        for op in dfbfs.menu(M, seen):
            out.append({"part": "bfs", "init": init, "prefix": [op], "depth": depth - 1})
            if op["op"] in dfbfs.INPLACE:
                out.append({"part": "bfs", "init": init, "prefix": [op], "depth": depth, "hidden_then_any": True})
    from mc import harness
    # frames built from plain Python lists, observed (sorted, rendered ...) as the first thing that happens in the process
    return harness.with_array_forms(out, tier, lambda sh: sh["part"] == "bfs" and sh["prefix"] and sh["prefix"][0]["op"] == "observe" and not sh.get("hidden_then_any"))


_DEFAULT_HOLDERS = None


def lib_defaults():
    """repr of every mutable (list / dict / set) default argument value of the library's functions and methods."""
    global _DEFAULT_HOLDERS
    if _DEFAULT_HOLDERS is None:
        import inspect, types
        holders, seen = [], set()
        mods = [m for name, m in sorted(sys.modules.items()) if name == "dataiter" or name.startswith("dataiter.")]
        def visit(f):
            f = getattr(f, "__func__", f)
            f = inspect.unwrap(f) if callable(f) else f
            if not isinstance(f, types.FunctionType) or id(f) in seen:
                return
            seen.add(id(f))
            vals = list(f.__defaults__ or ()) + list((f.__kwdefaults__ or {}).values())
            for v in vals:
                if isinstance(v, (list, dict, set)):
                    holders.append((f.__module__ + "." + f.__qualname__, v))
        for m in mods:
            for obj in vars(m).values():
                if getattr(obj, "__module__", "").startswith("dataiter"):
                    visit(obj)
                    if isinstance(obj, type):
                        for member in vars(obj).values():
                            visit(member)
        _DEFAULT_HOLDERS = holders
    return [(name, repr(v)) for name, v in _DEFAULT_HOLDERS]


def run_call(rec, what, label, build, fn, case):
    """Execute one call twice (for the two directions of the write test) with all oracles."""
    recv, args = build()
    operands = [recv] + args
    before = [snap(x) for x in operands]
    rec.state(before[0])
    rec.case((before[0], what, label), bool(len(arrays_of(recv)) and arrays_of(recv)[0].size))
    rec.trans()
    defaults0 = lib_defaults()
    try:
        out = fn(recv, args)
    except Exception as e:
        if lib_defaults() != defaults0:
            rec.violation(what, "default-argument-changed", case, "a mutable default argument of a library function was changed by the (failed) call")
            return
        # Whether the call is valid is other properties' business; what matters here is that operands are unchanged.
        if [snap(x) for x in operands] != before:
            rec.violation(what, "operand-changed-by-failed-call", case, f"{type(e).__name__}: {e}")
        rec.count("calls_raised")
        rec.outcome((what, "raised", type(e).__name__))
        return
    if lib_defaults() != defaults0:
        rec.violation(what, "default-argument-changed", case, "a mutable default argument of a library function (the argument used when the "
                      "caller gives none, shared by all later calls) was changed by the call")
        return
    after = [snap(x) for x in operands]
    if after != before:
        i = next(i for i in range(len(operands)) if after[i] != before[i])
        rec.violation(what, "operand-changed", case, f"{'receiver' if i == 0 else 'argument'} changed by the call")
        return
    outs = arrays_of(out)
    for oa in outs:
        for x in operands:
            for xa in arrays_of(x):
                if oa.size and xa.size and np.shares_memory(oa, xa):
                    rec.violation(what, "shares-memory", case, f"a result array ({oa.dtype}) shares memory with an operand array")
                    return
    if isinstance(out, (DataFrame, np.ndarray)):
        rec.state(snap(out))
    # (c) scribble over the result -> operands unchanged, and the SAME call made again returns what it returned the
    #     first time (a result handed out from a cache would now carry the scribbles)
    first = [snap_array(a) for a in outs]
    for oa in outs:
        if oa.flags.writeable:
            scribble(oa)
    if [snap(x) for x in operands] != before:
        rec.violation(what, "write-through-result", case, "an in-place edit of the result was observed on an operand")
        return
    if ".sample" not in what and "write_" not in what and "read_" not in what:
        try:
            again = [snap_array(a) for a in arrays_of(fn(recv, args))]
        except Exception as e:
            rec.violation(what, "second-call-raised", case, f"the same call made a second time raised {type(e).__name__}: {e}")
            return
        if again != first:
            rec.violation(what, "second-result-differs", case, "the same call on the same unchanged operands returned something else the second time "
                          "(after the first result had been edited in place)")
            return
    # converse: fresh run, scribble over operands -> result unchanged
    recv2, args2 = build()
    out2 = fn(recv2, args2)
    s2 = [snap_array(a) for a in arrays_of(out2)]
    for x in [recv2] + args2:
        for xa in arrays_of(x):
            if xa.flags.writeable:
                scribble(xa)
    if [snap_array(a) for a in arrays_of(out2)] != s2:
        rec.violation(what, "write-through-operand", case, "an in-place edit of an operand was observed on the result")
        return
    rec.outcome((what, label, len(outs)))


PYLISTS = [
    [1, 2, None], [None, 1.5], [float("nan"), 2.5, None], ["a", None, "b"], [True, None], [None, None],
    [datetime.date(2020, 2, 29), None], [datetime.datetime(2020, 2, 29, 12, 0), None, None], [1, None, "a"], [],
]
PYLIST_CALLS = ["Vector", "DataFrameColumn", "DataFrame", "modify", "setitem", "update", "cbind", "ListOfDicts.to_data_frame"]


def pylist_repr(lst):
    # identity-free description of a plain Python list (NaN by name: nan != nan)
    return repr([("nan" if isinstance(x, float) and x != x else x) for x in lst])


def check_pylist(case, rec):
    """A caller's own Python LIST handed to a constructor or method is an argument like any other: it is unchanged
    afterwards (its None / NaN items are not rewritten in place) and a later edit of it is not seen by the result."""
    lst = list(PYLISTS[case["list"]])
    call = case["call"]
    before = pylist_repr(lst)
    rec.state(("pylist", before))
    rec.case(("pylist", call, before), any(x is None for x in lst))
    rec.trans()
    n = len(lst)
    base = di.DataFrame(k=list(range(n)))
    try:
        if call == "Vector":
            out = di.Vector(lst)
        elif call == "DataFrameColumn":
            out = di.DataFrameColumn(lst)
        elif call == "DataFrame":
            out = di.DataFrame(x=lst)
        elif call == "modify":
            out = base.modify(x=lst)
        elif call == "setitem":
            out = base.copy()
            out["x"] = lst
        elif call == "update":
            out = base.update(di.DataFrame(x=lst)) if n else base
        elif call == "cbind":
            out = base.cbind(di.DataFrame(x=lst)) if n else base
        else:
            items = [{"x": v} for v in lst]
            snap_items = repr([pylist_repr(list(i.values())) for i in items])
            out = di.ListOfDicts(items).to_data_frame() if n else base
            if repr([pylist_repr(list(i.values())) for i in items]) != snap_items:
                rec.violation("ListOfDicts", "argument-changed", case, "the dicts handed to ListOfDicts were changed")
                return
    except Exception as e:
        rec.count("calls_raised")
        rec.outcome((call, "raised", type(e).__name__))
        out = None
    after = pylist_repr(lst)
    if after != before:
        rec.violation(call, "argument-changed", case, f"the caller's list {before} is {after} after the call")
        return
    if out is not None:
        arrs = arrays_of(out) if not isinstance(out, np.ndarray) else [np.asarray(out)]
        s0 = [snap_array(a) for a in arrs]
        for i in range(len(lst)):
            lst[i] = "scribbled"
        if [snap_array(a) for a in arrs] != s0:
            rec.violation(call, "write-through-operand", case, "an edit of the caller's list afterwards was observed on the result")
            return
    rec.outcome((call, after))


FRESH_CALLS = ["to_string", "to_string narrow", "repr", "print_", "sort", "unique", "filter", "column to_strings", "column sort", "to_json"]


def check_fresh(case, rec):
    """A frame built from plain Python lists, and ONE method called on it, as the first thing that happens in the
    interpreter (replayed the same way): the receiver is unchanged."""
    what = case["what"]
    long = "a rather long remark that does not fit into a table cell of the default width"
    d = di.DataFrame(id=[3, 1, 2], s=["short", long, "first line\nsecond line"], f=[1.5, None, 2.5])
    before = snap(d)
    rec.state(before)
    rec.case(("fresh", what), True)
    rec.trans()
    try:
        if what == "to_string":
            d.to_string()
        elif what == "to_string narrow":
            d.to_string(truncate_width=3, max_rows=2)
        elif what == "repr":
            repr(d)
        elif what == "print_":
            _quiet(lambda: d.print_())
        elif what == "sort":
            d.sort(s=1)
        elif what == "unique":
            d.unique("s")
        elif what == "filter":
            d.filter(s="short")
        elif what == "column to_strings":
            d.s.to_strings(quote=False, truncate_width=5)
        elif what == "column sort":
            d.s.sort()
        else:
            d.to_json()
    except Exception as e:
        rec.count("calls_raised")
        rec.outcome((what, "raised", type(e).__name__))
    if snap(d) != before:
        rec.violation(f"DataFrame.{what}", "operand-changed", case, f"the receiver changed: {V.frame_rows(d)}")
        return
    rec.outcome((what, "unchanged"))


def nparrays():
    return [np.array([1, 2, 3], dtype="int64"), np.array([1.5, np.nan, 2.5]), np.array(["a", "", "b"], dtype=di.dtypes.string),
            np.array([True, False]), np.array(["2020-01-01", "NaT"], dtype="datetime64[D]"), np.array([3, 1], dtype="uint8"),
            np.array(["ab", "c"], dtype="U2"), np.array([], dtype="float64")]


NPARRAY_CALLS = ["Vector", "DataFrameColumn", "DataFrame", "setitem", "setattr", "modify", "update", "Vector of Vector"]


def check_nparray(case, rec):
    """A caller's own NumPy ARRAY (or Vector) handed to a constructor or stored as a column: unchanged afterwards, and
    what was built from it shares no memory with it (a later edit of either is not seen through the other)."""
    arr = nparrays()[case["array"]]
    call = case["call"]
    before = snap_array(arr)
    rec.state(("nparray", before))
    rec.case(("nparray", call, before), bool(arr.size))
    rec.trans()
    n = len(arr)
    base = di.DataFrame(k=list(range(n)))
    try:
        if call == "Vector":
            out = di.Vector(arr)
        elif call == "Vector of Vector":
            src = di.Vector.fast(arr)
            out = di.Vector(src)
            arr = np.asarray(src)
        elif call == "DataFrameColumn":
            out = di.DataFrameColumn(arr)
        elif call == "DataFrame":
            out = di.DataFrame(x=arr)
        elif call == "setitem":
            out = base.copy()
            out["x"] = arr
        elif call == "setattr":
            out = base.copy()
            out.x = arr
        elif call == "modify":
            out = base.modify(x=arr)
        else:
            out = base.update(di.DataFrame(x=arr)) if n else base
    except Exception as e:
        rec.count("calls_raised")
        rec.outcome((call, "raised", type(e).__name__))
        return
    if snap_array(arr) != before:
        rec.violation(call, "argument-changed", case, "the caller's array was changed by the call")
        return
    outs = arrays_of(out) if not isinstance(out, np.ndarray) else [np.asarray(out)]
    for oa in outs:
        if oa.size and arr.size and np.shares_memory(oa, arr):
            rec.violation(call, "shares-memory", case, f"what was built ({oa.dtype}) shares memory with the caller's array")
            return
    s0 = [snap_array(a) for a in outs]
    if arr.flags.writeable:
        scribble(arr)
    if [snap_array(a) for a in outs] != s0:
        rec.violation(call, "write-through-operand", case, "an edit of the caller's array afterwards was observed on the result")
        return
    rec.outcome((call, str(arr.dtype)))


def check_case(case, rec):
    if case.get("part") == "nparray":
        return check_nparray(case, rec)
    if case.get("part") == "fresh":
        return check_fresh(case, rec)
    if case.get("part") == "pylist":
        return check_pylist(case, rec)
    if case.get("part") == "df":
        menu = df_menu()[case["method"]]
        label, fn, nargs = next(x for x in menu if x[0] == case["label"])
        r = case["rows"]

        def build():
            recv = V.frame(operand_cols(r) if nargs != "noobj" else [c for c in operand_cols(r) if c[1] != "obj"])
            if case.get("grouped"):
                recv.group_by("i")  # the mark stays on the object; a method returning a new object must not clear or change it
            if nargs == "noobj":
                return recv, []
            if nargs == "idx":
                return recv, [np.array([-1, 0], dtype="int64")]
            if nargs == "frame+names":
                return recv, [V.frame(operand_cols(max(r, 2), shift=1)), ["f", "b"]]
            if nargs == "intlist":
                return recv, [[1, 0]]
            if nargs == "boollist":
                return recv, [[True, False, True, True, False, True][:max(r, 1)] if r <= 6 else [i % 3 != 1 for i in range(r)]]
            if nargs == "names+dtypes":
                return recv, [["s", "i", "f"], {"i": float, "s": object}]
            if nargs == "ragged2":
                cols = operand_cols(r, shift=1)
                a0 = V.frame([c for c in cols if c[0] not in ("f", "s")])
                a1 = V.frame([c for c in cols if c[0] != "i"] + [["x9", "i8", list(range(r))]])
                return recv, [a0, a1]
            return recv, [V.frame(operand_cols(max(r, 2), shift=1)) for _ in range(nargs)]
        run_call(rec, f"DataFrame.{case['method']}" + (" [grouped receiver]" if case.get("grouped") else ""), label, build, fn, case)
    elif case.get("part") == "vec":
        menu = vec_menu()[case["method"]]
        label, fn, kinds = next(x for x in menu if x[0] == case["label"])
        k, toks = vec_tokens(case["kind"], case["rows"])
        k2, toks2 = vec_tokens(case["kind"], case["rows"], shift=1)

        def build():
            return V.vector(k, toks), [V.vector(k2, toks2)]
        run_call(rec, f"Vector.{case['method']}", label, build, fn, case)
    else:
        dfbfs.check_history(case, rec, CLAUSES)


def run_shard(shard, rec):
    if shard["part"] == "fresh":
        check_case({"part": "fresh", "what": shard["what"]}, rec)
        rec.sample({"part": "fresh", "what": shard["what"]})
        return
    if shard["part"] == "nparray":
        for i in range(len(nparrays())):
            for call in NPARRAY_CALLS:
                check_case({"part": "nparray", "array": i, "call": call}, rec)
        rec.sample({"part": "nparray", "arrays": len(nparrays()), "calls": NPARRAY_CALLS})
        return
    if shard["part"] == "pylist":
        for i in range(len(PYLISTS)):
            for call in PYLIST_CALLS:
                check_case({"part": "pylist", "list": i, "call": call}, rec)
        rec.sample({"part": "pylist", "lists": len(PYLISTS), "calls": PYLIST_CALLS})
        return
    if shard["part"] == "df":
        for label, fn, nargs in df_menu()[shard["method"]]:
            check_case({"part": "df", "method": shard["method"], "label": label, "rows": shard["rows"]}, rec)
            if shard["method"] not in ("aggregate", "modify") or label == "receiver as it is":
                check_case({"part": "df", "method": shard["method"], "label": label, "rows": shard["rows"], "grouped": True}, rec)
        rec.sample({"part": "df", "method": shard["method"], "rows": shard["rows"], "labels": [x[0] for x in df_menu()[shard["method"]]][:6]})
    elif shard["part"] == "vec":
        for name, entries in sorted(vec_menu().items()):
            for label, fn, kinds in entries:
                if kinds is not None and shard["kind"] not in kinds:
                    continue
                check_case({"part": "vec", "method": name, "label": label, "kind": shard["kind"], "rows": shard["rows"]}, rec)
        rec.sample({"part": "vec", "kind": shard["kind"], "rows": shard["rows"]})
    else:
        init, prefix = shard["init"], shard["prefix"]
        if not prefix:
            dfbfs.check_history({"init": init, "history": []}, rec, CLAUSES)
            dfbfs.explore(init, [], 1, rec, CLAUSES)
        else:
            last = shard["depth"] - 1
            filt = (lambda level, op: level == last or op["op"] in dfbfs.INPLACE) if shard.get("hidden_then_any") else None
            dfbfs.explore(init, prefix, shard["depth"], rec, CLAUSES, op_filter=filt)
        rec.sample({"part": "bfs", "init": dfbfs.INITS[init], "history": prefix})


def classify(v):
    return None
