#!/venv/bin/python
"""Run the repository's pinned baseline (guard OFF) against a tree and compare with BASELINE.json.

usage: baseline.py [repo_dir]   (default /repo). Exit 0 iff every stable_pass test passes.
"""
import json, os, subprocess, sys, tempfile, shutil
import xml.etree.ElementTree as ET

repo = os.path.abspath(sys.argv[1]) if len(sys.argv) > 1 else "/repo"
base = json.load(open("/root/.vp/BASELINE.json"))
scratch = tempfile.mkdtemp(prefix="dataiter-baseline-")
try:
    junit = os.path.join(scratch, "junit.xml")
    env = {k: v for k, v in os.environ.items() if k not in ("DATAITER_VERIF", "DATAITER_USE_NUMBA", "DATAITER_USE_NUMBA_CACHE")}
    env.update({"NUMBA_CACHE_DIR": os.path.join(scratch, "numba"), "PYTHONDONTWRITEBYTECODE": "1", "PYTHONPATH": repo})
    cmd = ["/venv/bin/python", "-m", "pytest", "-ra", "-q", "-p", "no:cacheprovider", "--timeout=900",
           "--continue-on-collection-errors", f"--junitxml={junit}"]
    p = subprocess.run(cmd, cwd=repo, env=env, capture_output=True, text=True)
    passed = set()
    for tc in ET.parse(junit).getroot().iter("testcase"):
        if not any(ch.tag in ("failure", "error", "skipped") for ch in tc):
            passed.add(f"{tc.get('classname')}::{tc.get('name')}")
    missing = [t for t in base["stable_pass"] if t not in passed]
    print(p.stdout.strip().splitlines()[-1] if p.stdout.strip() else p.stderr[-500:])
    print(f"baseline stable_pass={len(base['stable_pass'])} passed_now={len(passed)} missing={len(missing)}")
    for t in missing[:20]:
        print("  MISSING", t)
    sys.exit(1 if missing else 0)
finally:
    shutil.rmtree(scratch, ignore_errors=True)
