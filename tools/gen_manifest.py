#!/venv/bin/python
"""Regenerate /verif/MANIFEST.json from the check modules that exist."""
import importlib
import json
import os
import subprocess
import sys

VERIF = os.path.dirname(os.path.dirname(os.path.abspath(__file__)))
sys.path.insert(0, VERIF)
os.environ.setdefault("DATAITER_USE_NUMBA", "false")
os.environ.setdefault("PYTHONDONTWRITEBYTECODE", "1")
from mc import harness  # noqa

ENGINE = {
    "C01": "E2", "C02": "E1", "C03": "E1+E2", "C04": "E1", "C05": "E1", "C06": "E1+E2", "C07": "E1",
    "C08": "E1+E3", "C09": "E1+E2", "C10": "E1", "C11": "E1", "C12": "E1", "C13": "E1", "C14": "E1",
    "C15": "E1+E2", "C16": "E1", "C17": "E2", "C18": "E1", "C19": "E1", "C20": "E1",
}
TECH = {
    "E1": "bounded exhaustive enumeration of the input/argument space, each case executed on the real code and compared with a lock-step reference model",
    "E2": "explicit-state breadth-first search over operation histories on the real objects (canonical state hashing, history replay), invariants and reference model evaluated in every state",
    "E3": "exhaustive enumeration of process/first-use histories (fresh interpreters over a private JIT cache), every history executed for real",
}


def technique(engine):
    return "model checking: " + "; ".join(TECH[e] for e in engine.split("+"))


def main():
    props = [json.loads(l) for l in open(os.path.join(VERIF, "properties.jsonl"))]
    checks, na = [], []
    ready = set(open(os.path.join(VERIF, "checks", "READY")).read().split())
    for p in props:
        pid = p["id"]
        modname = harness.CHECKS[pid]
        path = os.path.join(VERIF, modname.replace(".", "/") + ".py")
        if not os.path.exists(path) or pid not in ready:
            na.append({"property_id": pid, "reason": "check not implemented yet in this revision (planned, see DESIGN.md section 5); not a claim that the technique cannot apply"})
            continue
        mod = importlib.import_module(modname)
        checks.append({
            "property_id": pid,
            "quick_cmd": f"/venv/bin/python /verif/run_check.py {pid} --tier quick",
            "thorough_cmd": f"/venv/bin/python /verif/run_check.py {pid} --tier thorough",
            "evidence_file": f"/verif/evidence/{pid}.json",
            "replay_cmd_template": "/venv/bin/python /verif/run_check.py --replay {path}",
            "engine": ENGINE[pid],
            "level_claimed": {
                "category": "model_checking",
                "text": getattr(mod, "LEVEL_TEXT", None) or (
                    f"Bounded exhaustive exploration on the implementation itself: {mod.RULE}. "
                    f"Quick bound: {mod.BOUND['quick']}. Thorough bound: {mod.BOUND['thorough']}. "
                    "Every explored execution runs the real dataiter code and is compared with a plain-Python reference model; "
                    "nothing is sampled, and a run that hits its time cap reports exhaustive=false with the completed bound."),
                "design_ref": f"DESIGN.md section 5, {pid}",
            },
            "level_note": "Trusted base: CPython 3.12, NumPy 2.0.2, pyarrow 18, pandas 2.2, Numba 0.60 as installed; the reference models in /verif/mc and the check module; the alphabets of DESIGN.md section 4. "
                          + " ".join(mod.ASSUMPTIONS),
            "technique": technique(ENGINE[pid]),
        })
    hooks_commits = []
    manifest = {
        "version": 1,
        "setup_cmd": "/venv/bin/python -c \"import numpy, pyarrow, pandas, numba, wcwidth, attd; import sys; sys.path.insert(0, '/repo'); import dataiter\"",
        "hooks": {
            "guard": "DATAITER_VERIF",
            "enable": "none needed: the library is pure Python and every seam (np.random.choice, random.sample, dataiter.USE_NUMBA, dataiter.PRINT_*, COLUMNS) is reachable from outside; checks import /repo's working tree directly (PYTHONPATH=/repo) in a fresh interpreter per run",
            "baseline_off_cmd": "/venv/bin/python /verif/tools/baseline.py /repo",
            "source_commits": hooks_commits,
            "add_only": True,
        },
        "engines": [
            {"name": "E1", "path": "/verif/mc/harness.py", "serves_properties": [k for k, v in ENGINE.items() if "E1" in v], "kind_free_text": TECH["E1"]},
            {"name": "E2", "path": "/verif/mc/bfs.py", "serves_properties": [k for k, v in ENGINE.items() if "E2" in v], "kind_free_text": TECH["E2"]},
            {"name": "E3", "path": "/verif/checks/c08_numba.py", "serves_properties": ["C08"], "kind_free_text": TECH["E3"]},
        ],
        "checks": checks,
        "notes": "All checks: /venv/bin/python /verif/run_check.py <id> --tier quick|thorough; exit 0 held / 1 violation (VIOLATION line) / 2 infrastructure error. Known findings and fixed records: /verif/known_findings.json. Seeded property-breaking changes: /verif/seeded/.",
        "not_applicable": na,
    }
    with open(os.path.join(VERIF, "MANIFEST.json"), "w") as f:
        json.dump(manifest, f, indent=1)
    print(f"MANIFEST.json: {len(checks)} checks, {len(na)} not yet claimed")
    vt = "/usr/local/bin/python3-vt"
    if os.path.exists(vt):
        code = "import json,jsonschema;jsonschema.validate(json.load(open('/verif/MANIFEST.json')), json.load(open('/root/.vp/MANIFEST.schema.json')));print('manifest validates')"
        env = {k: v for k, v in os.environ.items() if not k.startswith("PYTHON")}
        subprocess.run([vt, "-W", "ignore", "-c", code], env=env)


if __name__ == "__main__":
    main()
