#!/bin/bash
# Consistent re-evaluation of every kept property-breaking change with the checks as they are now.
# usage: tools/eval_all.sh [parallel jobs]   (C08 items run one at a time afterwards: their check spawns 16 workers itself)
cd /verif
J=${1:-3}
for d in seeded mutants; do
  for n in $(ls $d | grep -v "\.md$"); do
    [ -f $d/$n/meta.json ] || continue
    # forget earlier verdicts: the tables must show what the final checks say
    /venv/bin/python - "$d/$n/result.json" <<'PY'
import json, sys, os
p = sys.argv[1]
if os.path.exists(p):
    r = json.load(open(p)); r.pop("checks", None); json.dump(r, open(p, "w"), indent=1)
PY
  done
done
uses_c08() { /venv/bin/python -c "
import json,sys
m=json.load(open(sys.argv[1]))
c=m.get('checks') or m['property'].replace(' ','').split('/')
sys.exit(0 if 'C08' in c else 1)" "$1"; }
: > /tmp/eval_all.log
for d in seeded mutants; do
  ls $d | grep -v "\.md$" | while read n; do [ -f $d/$n/meta.json ] && ! uses_c08 $d/$n/meta.json && echo "$d $n"; done
done | xargs -P $J -L 1 bash -c 'SEEDED_DIR=/verif/$0 /verif/tools/run_seeded.py check $1 --tier quick 2>&1 | grep -v conda' >> /tmp/eval_all.log 2>&1
for d in seeded mutants; do
  ls $d | grep -v "\.md$" | while read n; do [ -f $d/$n/meta.json ] && uses_c08 $d/$n/meta.json && echo "$d $n"; done
done | while read d n; do SEEDED_DIR=/verif/$d /verif/tools/run_seeded.py check $n --tier quick 2>&1 | grep -v conda >> /tmp/eval_all.log; done
echo finished >> /tmp/eval_all.log
