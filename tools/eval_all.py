#!/venv/bin/python
"""
Consistent evaluation of every kept property-breaking change (seeded/ and mutants/) with the checks as they are now.

    eval_all.py [--jobs N] [--fresh] [--only REGEX]

--fresh forgets earlier verdicts first; otherwise only changes without a verdict for each of their checks are run.
Every run sets VERIF_STOP_EARLY=1 (the harness stops scheduling shards once a shard has reported an unlisted
violation - a detection is a detection; the MANIFEST commands never set it). Changes whose checks include C08 run one
at a time at the end (that check starts 16 worker interpreters itself).
"""
import argparse, json, os, re, subprocess, sys, concurrent.futures

VERIF = os.path.dirname(os.path.dirname(os.path.abspath(__file__)))


def items():
    for d in ("seeded", "mutants"):
        root = os.path.join(VERIF, d)
        for n in sorted(os.listdir(root)):
            mp = os.path.join(root, n, "meta.json")
            if os.path.isfile(mp):
                meta = json.load(open(mp))
                checks = meta.get("checks") or meta["property"].replace(" ", "").split("/")
                yield d, n, checks


def have(d, n, checks):
    p = os.path.join(VERIF, d, n, "result.json")
    if not os.path.exists(p):
        return False
    got = json.load(open(p)).get("checks", {})
    return all(f"{c}:quick" in got for c in checks)


def run(d, n):
    env = dict(os.environ, SEEDED_DIR=os.path.join(VERIF, d), VERIF_STOP_EARLY="1")
    r = subprocess.run([os.path.join(VERIF, "tools", "run_seeded.py"), "check", n, "--tier", "quick"], env=env, capture_output=True, text=True)
    return "\n".join(l for l in r.stdout.splitlines() if "conda" not in l)


def main():
    ap = argparse.ArgumentParser()
    ap.add_argument("--jobs", type=int, default=2)
    ap.add_argument("--fresh", action="store_true")
    ap.add_argument("--only", default=None)
    ap.add_argument("--again", action="store_true", help="run everything again, each verdict replaced when its run ends (nothing is forgotten first)")
    a = ap.parse_args()
    todo = []
    for d, n, checks in items():
        if a.only and not re.search(a.only, n):
            continue
        p = os.path.join(VERIF, d, n, "result.json")
        if a.fresh and os.path.exists(p):
            r = json.load(open(p)); r.pop("checks", None); json.dump(r, open(p, "w"), indent=1)
        if a.fresh or a.again or not have(d, n, checks):
            todo.append((d, n, checks))
    light = [(d, n) for d, n, c in todo if "C08" not in c]
    heavy = [(d, n) for d, n, c in todo if "C08" in c]
    print(f"{len(light)} + {len(heavy)} (C08) changes to evaluate", flush=True)
    with concurrent.futures.ThreadPoolExecutor(a.jobs) as ex:
        for out in ex.map(lambda x: run(*x), light):
            print(out, flush=True)
    for d, n in heavy:
        print(run(d, n), flush=True)
    print("finished", flush=True)


if __name__ == "__main__":
    main()
