#!/venv/bin/python
"""
Evaluate seeded property-breaking changes kept under /verif/seeded/<name>/.

    run_seeded.py confirm <name>...   in a scratch worktree (outside /repo and /verif): demo passes on the clean
                                      tree, fails with the patch; the baseline test suite still passes with the patch
    run_seeded.py check <name>... [--tier quick] [--checks C05,C02] [--in-repo]
                                      run the property's check(s) against the patched tree; default: a scratch
                                      worktree via VERIF_REPO (parallel-safe); --in-repo: git -C /repo apply,
                                      run, git -C /repo checkout -- . (the way the brief describes)
    run_seeded.py table               rewrite /verif/seeded/RESULTS.md from the result.json files

Every scratch worktree is removed as soon as its run is over.
"""
import argparse
import json
import os
import shutil
import subprocess
import sys
import tempfile
import time

VERIF = os.path.dirname(os.path.dirname(os.path.abspath(__file__)))
SEEDED = os.environ.get("SEEDED_DIR", os.path.join(VERIF, "seeded"))


def sh(cmd, **kw):
    return subprocess.run(cmd, capture_output=True, text=True, **kw)


def worktree():
    d = tempfile.mkdtemp(prefix="dataiter-seeded-")
    os.rmdir(d)
    r = sh(["git", "-C", "/repo", "worktree", "add", "--detach", "-q", d, "HEAD"])
    if r.returncode:
        raise SystemExit(r.stderr)
    return d


def drop(d):
    sh(["git", "-C", "/repo", "worktree", "remove", "--force", d])
    shutil.rmtree(d, ignore_errors=True)
    sh(["git", "-C", "/repo", "worktree", "prune"])


def load(name):
    d = os.path.join(SEEDED, name)
    meta = json.load(open(os.path.join(d, "meta.json")))
    demo = next((f for f in sorted(os.listdir(d)) if f.startswith("demo")), None)
    return d, meta, os.path.join(d, demo) if demo else None


def save_result(d, key, value):
    p = os.path.join(d, "result.json")
    r = json.load(open(p)) if os.path.exists(p) else {}
    r[key] = value
    json.dump(r, open(p, "w"), indent=1)


def run_demo(demo, tree):
    env = dict(os.environ, PYTHONPATH=tree, PYTHONDONTWRITEBYTECODE="1", NUMBA_CACHE_DIR=tempfile.mkdtemp(prefix="nbc-"), PYTHONWARNINGS="ignore")
    try:
        r = sh(["/venv/bin/python", demo], env=env, cwd=tempfile.gettempdir(), timeout=900)
        return r.returncode, (r.stdout + r.stderr)[-600:]
    finally:
        shutil.rmtree(env["NUMBA_CACHE_DIR"], ignore_errors=True)


def confirm(name):
    d, meta, demo = load(name)
    wt = worktree()
    try:
        clean_rc, clean_out = run_demo(demo, wt)
        ap = sh(["git", "-C", wt, "apply", os.path.join(d, "patch.diff")])
        if ap.returncode:
            res = {"ok": False, "why": "patch does not apply to /repo HEAD: " + ap.stderr[-300:]}
        else:
            bad_rc, bad_out = run_demo(demo, wt)
            base = sh(["/venv/bin/python", os.path.join(VERIF, "tools", "baseline.py"), wt])
            res = {"demo_on_clean_tree": clean_rc, "demo_with_patch": bad_rc, "baseline_with_patch": base.returncode,
                   "baseline_tail": base.stdout.strip().splitlines()[-1:] if base.stdout else [],
                   "ok": clean_rc == 0 and bad_rc != 0 and base.returncode == 0,
                   "demo_output_with_patch": bad_out[-300:]}
        res["head"] = sh(["git", "-C", "/repo", "rev-parse", "--short", "HEAD"]).stdout.strip()
        save_result(d, "confirm", res)
        print(name, "CONFIRMED" if res["ok"] else f"NOT CONFIRMED {res}")
        return res["ok"]
    finally:
        drop(wt)


def check(name, tier, checks, in_repo):
    d, meta, demo = load(name)
    props = checks or meta.get("checks") or [p for p in meta["property"].replace(" ", "").split("/")]
    patch = os.path.join(d, "patch.diff")
    results = {}
    if in_repo:
        tree, out = "/repo", None
        ap = sh(["git", "-C", "/repo", "apply", patch])
    else:
        tree = worktree()
        out = tempfile.mkdtemp(prefix="seeded-out-")
        ap = sh(["git", "-C", tree, "apply", patch])
    try:
        if ap.returncode:
            print(name, "patch does not apply:", ap.stderr[-300:])
            return
        for pid in props:
            env = dict(os.environ, VERIF_TIER=tier)
            if not in_repo:
                env.update(VERIF_REPO=tree, VERIF_OUT=out)
            t0 = time.time()
            r = sh(["/venv/bin/python", os.path.join(VERIF, "run_check.py"), pid, "--tier", tier], env=env, cwd=VERIF)
            lines = [l for l in r.stdout.splitlines() if l.startswith("VIOLATION")]
            sigs = [l.strip() for l in r.stdout.splitlines() if l.strip().startswith("signature:")]
            results[pid] = {"tier": tier, "exit": r.returncode, "violation_lines": len(lines), "signatures": sigs[:6], "wall_s": round(time.time() - t0, 1),
                            "stderr_tail": r.stderr[-300:] if r.returncode == 2 else ""}
            print(f"{name} {pid} [{tier}] exit={r.returncode} violations={len(lines)} {sigs[:2]} ({results[pid]['wall_s']}s)")
        prev = {}
        p = os.path.join(d, "result.json")
        if os.path.exists(p):
            prev = json.load(open(p)).get("checks", {})
        prev.update({f"{k}:{tier}": v for k, v in results.items()})
        save_result(d, "checks", prev)
    finally:
        if in_repo:
            sh(["git", "-C", "/repo", "checkout", "--", "."])
        else:
            drop(tree)
            shutil.rmtree(out, ignore_errors=True)


def table():
    rows = []
    for name in sorted(os.listdir(SEEDED)):
        p = os.path.join(SEEDED, name, "result.json")
        if not os.path.exists(p):
            continue
        meta = json.load(open(os.path.join(SEEDED, name, "meta.json")))
        r = json.load(open(p))
        conf = r.get("confirm", {})
        cells = []
        for k, v in sorted(r.get("checks", {}).items()):
            verdict = "DETECTED" if v["exit"] == 1 else ("missed" if v["exit"] == 0 else "infra-error")
            cells.append(f"{k}: {verdict} ({v['wall_s']}s)")
        rows.append(f"| {name} | {meta['property']} | {meta.get('summary', '')[:110]} | {meta.get('needs', '')[:90]} | {'yes' if conf.get('ok') else 'NO'} | {'; '.join(cells)} |")
    with open(os.path.join(SEEDED, "RESULTS.md"), "w") as f:
        f.write("# Seeded property-breaking changes and what the checks say\n\n")
        f.write("Each change was written by a fresh sub-agent that saw only the property text; `confirmed` = demo passes on the clean tree, fails with the patch, and the repository's baseline suite still passes with the patch (tools/run_seeded.py confirm).\n\n")
        f.write("| seeded change | property | summary | needs | confirmed | check verdicts |\n|---|---|---|---|---|---|\n")
        f.write("\n".join(rows) + "\n")
    print(f"{len(rows)} rows")


if __name__ == "__main__":
    ap = argparse.ArgumentParser()
    ap.add_argument("cmd", choices=["confirm", "check", "table"])
    ap.add_argument("names", nargs="*")
    ap.add_argument("--tier", default="quick")
    ap.add_argument("--checks")
    ap.add_argument("--in-repo", action="store_true")
    a = ap.parse_args()
    if a.cmd == "table":
        table()
    for n in a.names:
        if a.cmd == "confirm":
            confirm(n)
        elif a.cmd == "check":
            check(n, a.tier, a.checks.split(",") if a.checks else None, a.in_repo)
