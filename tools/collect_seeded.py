#!/venv/bin/python
"""
Copy sub-agent outputs /tmp/mut/<ID>-out[K]/{patchN.diff,demoN.py,metaN.json} to /verif/seeded/<ID>[-rK]-N/.

    collect_seeded.py [--round K] [--dest DIR] <ID>...

Round 1 has no suffix (C05-1); later rounds are C05-r2-1, C05-r3-1, ...
"""
import json, os, shutil, sys

ORIGIN = {
    1: "fresh sub-agent given only the property text and a scratch worktree",
    2: "second-round sub-agent (brief: seeded/BRIEF2.md: size thresholds, hidden state, rare dtypes, argument combinations, names)",
    3: "third-round sub-agent (brief: seeded/BRIEF3.md)",
    12: "twelfth-round sub-agent (brief: seeded/BRIEF12.md: one change per property - low-level shared helpers, two cooperating sites, NumPy 2 / StringDType / datetime-unit corners)",
    11: "eleventh-round sub-agent (brief: seeded/BRIEF11.md: one change per property - rewrites that look like improvements: performance rewrites, clean-ups, support for more input)",
    10: "tenth-round sub-agent (brief: seeded/BRIEF10.md: provenance of the operand, chains of three or more operations, particular values)",
    9: "ninth-round sub-agent (brief: seeded/BRIEF9.md: functions no earlier change had edited, and equivalent public routes one of which stays right)",
    8: "eighth-round sub-agent (brief: seeded/BRIEF8.md: regression-oriented - later refactorings that keep the headline example of one of the fix commits working but lose a neighbouring case)",
    7: "seventh-round sub-agent (brief: seeded/BRIEF7.md: branch-oriented - list the branches of the anchored code, cross off those already attacked, break one of the rest)",
    6: "sixth-round sub-agent (brief: seeded/BRIEF6.md: data-dependent fast paths, Python/NumPy type pitfalls, array forms, mixed-type object columns, Unicode beyond the BMP, degenerate shapes, subclasses, negative steps)",
    5: "fifth-round sub-agent (brief: seeded/BRIEF5.md: state leaking between calls, environment, feature interactions, subclass and attribute preservation, boundary arguments, order of evaluation, precision of conversions)",
    4: "fourth-round sub-agent (brief: seeded/BRIEF4.md: width, duplicates from outside, misbehaving callbacks, failure atomicity, keyword pass-through, text normalisation, dtype-edge arithmetic, re-entrancy)",
}

argv = sys.argv[1:]
rnd, dest = 1, "/verif/seeded"
if "--round2" in argv:
    argv.remove("--round2")
    rnd = 2
if "--round" in argv:
    i = argv.index("--round")
    rnd = int(argv[i + 1])
    del argv[i:i + 2]
if "--dest" in argv:
    i = argv.index("--dest")
    dest = argv[i + 1]
    del argv[i:i + 2]
for pid in argv:
    src = f"/tmp/mut/{pid}-out" + ("" if rnd == 1 else str(rnd))
    for n in (1, 2, 3, 4):
        p = os.path.join(src, f"patch{n}.diff")
        if not os.path.exists(p):
            continue
        dst = os.path.join(dest, f"{pid}-{n}" if rnd == 1 else f"{pid}-r{rnd}-{n}")
        os.makedirs(dst, exist_ok=True)
        shutil.copy(p, os.path.join(dst, "patch.diff"))
        shutil.copy(os.path.join(src, f"demo{n}.py"), os.path.join(dst, "demo.py"))
        for extra in ("oracle.py",):
            if os.path.exists(os.path.join(src, extra)):
                shutil.copy(os.path.join(src, extra), os.path.join(dst, extra))
        mp = os.path.join(src, f"meta{n}.json")
        meta = json.load(open(mp)) if os.path.exists(mp) else {}
        meta["property"] = pid
        meta["origin"] = ORIGIN.get(rnd, f"round-{rnd} sub-agent")
        json.dump(meta, open(os.path.join(dst, "meta.json"), "w"), indent=1)
        print("collected", dst)
