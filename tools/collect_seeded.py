#!/venv/bin/python
"""Copy sub-agent outputs /tmp/mut/<ID>-out/{patchN.diff,demoN.py,metaN.json} to /verif/seeded/<ID>-N/."""
import json, os, shutil, sys
args = [a for a in sys.argv[1:] if not a.startswith("--")]
ROUND2 = "--round2" in sys.argv
for pid in args:
    src = f"/tmp/mut/{pid}-out2" if ROUND2 else f"/tmp/mut/{pid}-out"
    for n in (1, 2, 3, 4):
        p = os.path.join(src, f"patch{n}.diff")
        if not os.path.exists(p):
            continue
        dst = f"/verif/seeded/{pid}-r2-{n}" if ROUND2 else f"/verif/seeded/{pid}-{n}"
        os.makedirs(dst, exist_ok=True)
        shutil.copy(p, os.path.join(dst, "patch.diff"))
        shutil.copy(os.path.join(src, f"demo{n}.py"), os.path.join(dst, "demo.py"))
        for extra in ("oracle.py",):
            if os.path.exists(os.path.join(src, extra)):
                shutil.copy(os.path.join(src, extra), os.path.join(dst, extra))
        meta = json.load(open(os.path.join(src, f"meta{n}.json")))
        meta["property"] = pid
        meta["origin"] = ("second-round sub-agent (brief: seeded/BRIEF2.md: size thresholds, hidden state, rare dtypes, argument combinations, names)" if ROUND2
                          else "fresh sub-agent given only the property text and a scratch worktree")
        json.dump(meta, open(os.path.join(dst, "meta.json"), "w"), indent=1)
        print("collected", dst)
