#!/venv/bin/python
"""Assemble /verif/DESIGN.md from the kept design sections (1, 3, 4, 5) and tools/design_parts/*.md,
filling section 7 and 9 tables from seeded/*/result.json, mutants/*/result.json and evidence/*.json."""
import json
import os
import re
import subprocess

VERIF = os.path.dirname(os.path.dirname(os.path.abspath(__file__)))
PARTS = os.path.join(VERIF, "tools", "design_parts")


def part(name):
    return open(os.path.join(PARTS, name)).read().rstrip() + "\n\n"


def old_sections():
    """Sections 1, 3, 4, 5 of the design as first committed (git show of the design-only commit)."""
    p = os.path.join(PARTS, "original_design.md")
    if not os.path.exists(p):
        txt = subprocess.run(["git", "-C", VERIF, "show", "820f8b6:DESIGN.md"], capture_output=True, text=True).stdout
        open(p, "w").write(txt)
    txt = open(p).read()
    idx = {m.group(1): m.start() for m in re.finditer(r"^## (\d)\. ", txt, flags=re.M)}
    def cut(a, b):
        return txt[idx[a]:idx[b]].rstrip() + "\n\n"
    return cut("1", "2"), cut("3", "4"), cut("4", "5"), cut("5", "6")


def verdict_rows(d):
    rows = []
    for name in sorted(os.listdir(d)):
        rp = os.path.join(d, name, "result.json")
        mp = os.path.join(d, name, "meta.json")
        if not (os.path.exists(rp) and os.path.exists(mp)):
            continue
        meta, res = json.load(open(mp)), json.load(open(rp))
        conf = res.get("confirm")
        cells = []
        for k, v in sorted(res.get("checks", {}).items()):
            verdict = "DETECTED" if v["exit"] == 1 else ("missed" if v["exit"] == 0 else "infra-error")
            cells.append(f"{k.split(':')[0]} {verdict}")
        summary = " ".join(str(meta.get("summary", "")).split())[:150]
        rows.append((name, meta.get("property", ""), summary, ("yes" if conf and conf.get("ok") else ("n/a" if conf is None else "NO")), "; ".join(cells)))
    return rows


def table(rows, head):
    out = ["| " + " | ".join(head) + " |", "|" + "---|" * len(head)]
    for r in rows:
        out.append("| " + " | ".join(str(x).replace("|", "/") for x in r) + " |")
    return "\n".join(out) + "\n"


def cost_table():
    rows = []
    for i in range(1, 21):
        pid = f"C{i:02d}"
        for tier in ("quick", "thorough"):
            p = os.path.join(VERIF, "tools", "design_parts", "evidence_" + tier, pid + ".json")
            if not os.path.exists(p):
                continue
            e = json.load(open(p))
            c = e["coverage"]
            rows.append((pid, tier, c["states"], c["transitions"], c["evaluations"], c["distinct_nontrivial"], c["distinct_outcomes"],
                         "yes" if c["exhaustive"] else f"no ({c.get('shards_completed')}/{c.get('shards')} shards)", f"{e['wall_s']:.0f} s"))
    return table(rows, ["id", "tier", "states", "transitions", "evaluations", "distinct non-trivial", "distinct outcomes", "exhaustive", "wall"])


def main():
    s1, s3, s4, s5 = old_sections()
    s7 = part("s7.md")
    s7 = s7.replace("{{OWN_TABLE}}", table(verdict_rows(os.path.join(VERIF, "mutants")), ["hand-written change", "property", "what it does", "confirmed", "verdicts (quick tier)"]))
    s7 = s7.replace("{{SEEDED_TABLE}}", table(verdict_rows(os.path.join(VERIF, "seeded")), ["seeded change", "property", "summary (sub-agent's words)", "confirmed", "verdicts (quick tier unless noted)"]))
    reasons_path = os.path.join(PARTS, "miss_reasons.json")
    reasons = json.load(open(reasons_path)) if os.path.exists(reasons_path) else {}
    misses = []
    for d in ("seeded", "mutants"):
        for name, prop, summary, conf, cells in verdict_rows(os.path.join(VERIF, d)):
            if "DETECTED" not in cells:
                misses.append(f"* `{d}/{name}` ({prop}): {reasons.get(name, 'not detected - reason not yet analysed')}")
    s7 = s7.replace("{{MISSES}}", "### 7.4 Not detected by any check\n\n" + ("\n".join(misses) if misses else "None.") + "\n")
    s9 = part("s9.md").replace("{{COST_TABLE}}", cost_table())
    doc = part("header.md") + s1 + part("s2.md") + s3 + s4 + s5 + part("s5a.md") + part("s6.md") + s7 + part("s8.md") + s9
    open(os.path.join(VERIF, "DESIGN.md"), "w").write(doc)
    print("DESIGN.md written:", len(doc.splitlines()), "lines")


if __name__ == "__main__":
    main()
