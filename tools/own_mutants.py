#!/venv/bin/python
"""
Hand-written property-breaking changes (DESIGN section 7): each is a one-line edit of an anchored mechanism.
Writes /verif/mutants/<name>/{patch.diff,meta.json}; evaluate with
    SEEDED_DIR=/verif/mutants tools/run_seeded.py check <name> ...
"""
import json, os, subprocess, sys, tempfile, shutil

VERIF = os.path.dirname(os.path.dirname(os.path.abspath(__file__)))
M = [
 ("head_off_by_one", "C02", "dataiter/data_frame.py", "        n = min(self.nrow, n)\n        return self.slice(np.arange(n))", "        n = min(self.nrow, n + 1) if n == 2 else min(self.nrow, n)\n        return self.slice(np.arange(n))", "head(2) returns 3 rows"),
 ("drop_na_and", "C02", "dataiter/data_frame.py", "            drop = drop | self[colname].is_na()", "            drop = (drop & self[colname].is_na()) if drop.any() else self[colname].is_na()", "drop_na with two columns needs both missing"),
 ("unique_last", "C02/C04", "dataiter/data_frame.py", "        for i in range(self.nrow):\n            if rows[i] not in seen:", "        for i in reversed(range(self.nrow)):\n            if rows[i] not in seen:", "unique keeps the last occurrence (and reverses)"),
 ("sort_key_order", "C03", "dataiter/data_frame.py", "            sort_key(*x) for x in reversed(colname_dir_pairs.items()))))", "            sort_key(*x) for x in colname_dir_pairs.items())))", "wrong key significance in lexsort"),
 ("sort_rank_max", "C03", "dataiter/data_frame.py", '                column = column.rank(method="min")', '                column = column.rank(method="ordinal")', "descending non-numeric keys lose stability among ties"),
 ("join_last_match", "C05", "dataiter/data_frame.py", "        other_by_id = {other_ids[i]: i for i in range(other.nrow)}", "        other_by_id = {other_ids[i]: i for i in range(other.nrow)}\n        other_by_id.update({other_ids[i]: i for i in range(other.nrow) if other_ids.count(other_ids[i]) > 2})", "irrelevant after unique: equivalent mutant control"),
 ("left_join_dtype", "C05", "dataiter/data_frame.py", "            dtype = column.na_dtype\n            new = DataFrameColumn.fast([value], dtype).repeat(self.nrow)", "            dtype = column.na_dtype if column.is_integer() else column.dtype\n            new = DataFrameColumn.fast([value], dtype).repeat(self.nrow)", "bool payload cannot hold None when unmatched"),
 ("anti_join_no_dropna", "C05", "dataiter/data_frame.py", "        by1, by2 = self._split_join_by(*by)\n        other = other.drop_na(*by2).unique(*by2)\n        found, src = self._get_join_indices(other, by1, by2)\n        for colname, column in self.items():\n            yield colname, np.delete(column, found)", "        by1, by2 = self._split_join_by(*by)\n        other = other.unique(*by2)\n        found, src = self._get_join_indices(other, by1, by2)\n        for colname, column in self.items():\n            yield colname, np.delete(column, found)", "anti_join matches '' keys"),
 ("select_no_copy", "C06", "dataiter/data_frame.py", "        for colname in colnames:\n            yield colname, self[colname].copy()", "        for colname in colnames:\n            yield colname, self[colname]", "select returns the same column objects"),
 ("yield_groups_start", "C07/C04", "dataiter/aggregate.py", "def yield_groups(x, group, drop_na):\n    # Groups must be contiguous for this to work!\n    i = 0\n    n = len(x)\n    for j in range(1, n + 1):\n        if j < n and group[j] == group[i]: continue", "def yield_groups(x, group, drop_na):\n    # Groups must be contiguous for this to work!\n    i = 0\n    n = len(x)\n    for j in range(1, n + 1):\n        if j < n and group[j] == group[j-1]: continue", "equivalent for contiguous groups: control"),
 ("std_nrequired", "C07", "dataiter/aggregate.py", "    return np.std(x, ddof=ddof).item() if len(x) >= 2 else np.nan", "    return np.std(x, ddof=ddof).item() if len(x) >= 1 else np.nan", "vector std of one element is 0.0 but group-wise NaN"),
 ("mode_last", "C07", "dataiter/aggregate.py", "        return statistics.mode(x)", "        return statistics.multimode(x)[-1]", "mode tie-break by last"),
 ("nth_numba_le", "C08", "dataiter/aggregate.py", "        found = 0 <= index < len(xg) or -len(xg) <= index < 0", "        found = 0 <= index < len(xg) or -len(xg) < index < 0", "numba nth(-len) misses"),
 ("rbind_na_ref", "C09", "dataiter/data_frame.py", "                value = ref[colname].na_value\n                dtype = ref[colname].na_dtype", "                value = ref[colname].na_value\n                dtype = ref[colname].dtype", "rbind NA part dtype cannot hold NA for ints"),
 ("rename_swap", "C09", "dataiter/data_frame.py", "        from_to_pairs = {v: k for k, v in to_from_pairs.items()}\n        for fm in self.colnames:\n            to = from_to_pairs.get(fm, fm)\n            yield to, self[fm].copy()", "        from_to_pairs = {v: k for k, v in to_from_pairs.items()}\n        for fm in self.colnames:\n            to = from_to_pairs.get(fm, fm)\n            to = from_to_pairs.get(to, to)\n            yield to, self[fm].copy()", "rename chains swaps"),
 ("vector_int_na", "C10", "dataiter/vector.py", "            if any(x is na for x in seq):", "            if any(x is na for x in seq[1:]) or (seq and seq[0] is na and len(seq) > 1):", "single missing value with dtype not upcast"),
 ("rank_max_na", "C11", "dataiter/vector.py", "            out[na] = len(self)\n", "            out[na] = (~na).sum() + 1\n", "rank max of NA"),
 ("xopen_swap", "C12", "dataiter/util.py", '    if str(path).endswith(".xz"):\n        return lzma.open(path, mode, **kwargs)', '    if str(path).endswith(".xz"):\n        return open(path, mode, **kwargs)', "xz not compressed"),
 ("from_json_first_keys", "C13", "dataiter/data_frame.py", "        keys = util.unique_keys(itertools.chain(*data))", "        keys = util.unique_keys(itertools.chain(*data[:2]))", "keys only from first two records"),
 ("io_read_json_types", "C14", "dataiter/io.py", "                                 types=types,", "                                 types={},", "alias drops types"),
 ("lod_sort_none_first", "C15", "dataiter/list_of_dicts.py", "                        (item[key] is not None, item[key]))", "                        (item[key] is None, item[key]))", "descending sort puts None first"),
 ("lod_left_join_last", "C16", "dataiter/list_of_dicts.py", "        other_by_id = {extract2(x): x for x in reversed(other)}\n        for item in self:\n            new = other_by_id.get(extract1(item), {})", "        other_by_id = {extract2(x): x for x in other}\n        for item in self:\n            new = other_by_id.get(extract1(item), {})", "left_join takes last match"),
 ("mark_obsolete_no_recurse", "C17", "dataiter/list_of_dicts.py", "        if isinstance(self._predecessor, ListOfDicts):\n            self._predecessor._mark_obsolete()\n        self._obsolete = True", "        if isinstance(self._predecessor, ListOfDicts):\n            self._predecessor._obsolete = True\n        self._obsolete = True", "only parent marked"),
 ("geojson_last_comma", "C18", "dataiter/geojson.py", '                comma = "," if i < len(data) - 1 else ""', '                comma = "," if i < len(data) - 1 or len(data) == 3 else ""', "trailing comma for exactly 3 features"),
 ("dt_isoweek", "C19", "dataiter/dt.py", "    return _pull_int(x, lambda y: y.isocalendar()[1])", "    return _pull_int(x, lambda y: int(y.strftime('%W')) + 1)", "isoweek wrong at year boundaries"),
 ("to_string_nrows", "C20", "dataiter/data_frame.py", "        if max_rows < self.nrow:\n            rows_to_print.append", "        if max_rows + 1 < self.nrow:\n            rows_to_print.append", "row total not stated when exactly one row cut"),
 ("delitem_placeholder", "C01", "dataiter/data_frame.py", "        if vars(self).get(key) is self.COLUMN_PLACEHOLDER:\n            # Remove", "        if vars(self).get(key) is self.COLUMN_PLACEHOLDER and len(self) > 0:\n            # Remove", "placeholder kept when the last column is deleted"),
 ("setitem_no_reconcile", "C01", "dataiter/data_frame.py", "        nrow = self.nrow if self else None\n        return DataFrameColumn(column, nrow=nrow)", "        nrow = self.nrow if self and self.nrow > 1 else None\n        return DataFrameColumn(column, nrow=nrow)", "length mismatch stored on one-row frames"),
]


def main():
    out = os.path.join(VERIF, "mutants")
    for name, prop, path, old, new, summary in M:
        wt = tempfile.mkdtemp(prefix="own-mut-")
        os.rmdir(wt)
        subprocess.run(["git", "-C", "/repo", "worktree", "add", "--detach", "-q", wt, "HEAD"], check=True)
        try:
            f = os.path.join(wt, path)
            s = open(f).read()
            if s.count(old) != 1:
                print("SKIP", name, "anchor found", s.count(old), "times")
                continue
            open(f, "w").write(s.replace(old, new))
            diff = subprocess.run(["git", "-C", wt, "diff"], capture_output=True, text=True).stdout
            d = os.path.join(out, name)
            os.makedirs(d, exist_ok=True)
            open(os.path.join(d, "patch.diff"), "w").write(diff)
            json.dump({"property": prop, "summary": summary, "needs": "", "origin": "hand-written (DESIGN section 7)"}, open(os.path.join(d, "meta.json"), "w"), indent=1)
            print("ok", name)
        finally:
            subprocess.run(["git", "-C", "/repo", "worktree", "remove", "--force", wt])
            shutil.rmtree(wt, ignore_errors=True)


if __name__ == "__main__":
    main()
